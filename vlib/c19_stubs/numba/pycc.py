"""`numba.pycc.CC` stand-in: `export` is an identity-decorator factory that records what the
ahead-of-time module would contain; `compile` does nothing (and says so)."""

INSTANCES = []


class CC:
    def __init__(self, extension_name, source_module=None):
        self.name = extension_name
        self.exports = []
        self.verbose = False
        self.output_dir = None
        self.output_file = None
        self.target_cpu = None
        INSTANCES.append(self)

    def export(self, exported_name, sig):
        def deco(f):
            self.exports.append((exported_name, getattr(f, "__name__", None)))
            return f
        return deco

    def compile(self):
        raise RuntimeError("numba stub (C19): ahead-of-time compilation is not available")

    def distutils_extension(self, **kw):
        raise RuntimeError("numba stub (C19): ahead-of-time compilation is not available")
