"""Type stand-ins: `f8[:, :]`, `i4`, `b1`, `Tuple((i4, f8))(f8, ...)`, `void(...)` all evaluate."""


class _T:
    def __init__(self, name):
        self.name = name

    def __getitem__(self, item):
        return _T("%s[...]" % self.name)

    def __call__(self, *args, **kwargs):
        return _T("%s(...)" % self.name)

    def __repr__(self):
        return "<stub numba type %s>" % self.name


_NAMES = ["f8", "f4", "i1", "i2", "i4", "i8", "u1", "u2", "u4", "u8", "b1", "c8", "c16", "void", "boolean",
          "int8", "int16", "int32", "int64", "uint8", "uint16", "uint32", "uint64", "intp", "uintp", "intc",
          "float32", "float64", "double", "complex64", "complex128", "Tuple", "UniTuple", "List", "Array",
          "string", "unicode_type", "pyobject", "none"]
for _n in _NAMES:
    globals()[_n] = _T(_n)
__all__ = list(_NAMES)
