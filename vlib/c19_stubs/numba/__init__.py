"""Stand-in for the `numba` package (C19): numba is not installed in the sandbox, so the
numba_* source copies of the pygyro kernels are executed as plain Python.  `njit` / `jit` are
identity decorators (bare or called with options); `numba.pycc.CC` records exports and never
compiles; `numba.types` provides subscriptable / callable type stand-ins."""
from . import types  # noqa: F401
from .types import *  # noqa: F401,F403

__version__ = "0.0-c19-stub"
C19_STUB = True


def _identity_decorator(*args, **kwargs):
    if len(args) == 1 and callable(args[0]) and not kwargs and not isinstance(args[0], types._T):
        return args[0]

    def deco(f):
        return f
    return deco


njit = _identity_decorator
jit = _identity_decorator
vectorize = _identity_decorator
generated_jit = _identity_decorator
cfunc = _identity_decorator


def prange(*a):
    return range(*a)
