"""/verif support library: simulated MPI / HDF5, reference mathematics, runner."""
