"""Ride-along contract monitors (DESIGN.md section 2.4): harness-side wrappers on the real classes
that record (never raise) and count their evaluations, so that an identity is checked on every call
a realistic multi-rank workload performs, not only in the dedicated property check.

Currently: post-condition of SplineInterpolator1D.compute_interpolant -- the spline it filled takes the
given values at basis.greville (C08) -- with tolerance 500*eps*(kappa + max|x|/min dx)*max|data|,
kappa from the reference collocation matrix of that basis (cached per basis object).
"""
import numpy as np

from vlib import refmath as rm

STATE = {"installed": False, "evaluations": 0, "violations": [], "kappa": {}}
C = 500.0


def reset():
    STATE["evaluations"] = 0
    STATE["violations"] = []


def _kappa(basis):
    k = STATE["kappa"].get(id(basis))
    if k is None:
        T = rm.knots_of(basis)
        xs = np.asarray(basis.greville, dtype=float)
        M = rm.collocation(T, basis.degree, xs, periodic_nb=basis.nbasis if basis.periodic else None)
        br = np.asarray(basis.breaks, dtype=float)
        k = (float(np.linalg.cond(M)) + float(np.abs(br).max()) / float(np.min(np.diff(br))), basis)   # keep the basis alive: id() stays unique
        STATE["kappa"][id(basis)] = k
    return k[0]


def install():
    if STATE["installed"]:
        return
    from pygyro.splines import spline_interpolators as si
    orig = si.SplineInterpolator1D.compute_interpolant

    def compute_interpolant(self, ug, spl):
        data = np.array(ug, copy=True)
        orig(self, ug, spl)
        try:
            basis = self._basis
            kap = _kappa(basis)
            if not np.isfinite(kap) or kap > 1e8:
                return
            xs = np.asarray(basis.greville, dtype=float)
            if np.iscomplexobj(spl.coeffs):
                return                      # the evaluators are real-valued; complex splines are split by their users
            vals = spl.eval(xs.copy())
            scale = float(np.abs(data).max())
            STATE["evaluations"] += 1
            err = float(np.abs(vals - data).max()) if scale > 0 else float(np.abs(vals).max())
            if not err <= C * rm.EPS * kap * scale + 1e-300:
                if len(STATE["violations"]) < 5:
                    STATE["violations"].append("compute_interpolant post-condition: interpolant misses its data by %.3g (tol %.3g; degree %d, %d cells, %s, data scale %.3g)"
                                               % (err, C * rm.EPS * kap * scale, basis.degree, basis.ncells, "periodic" if basis.periodic else "clamped", scale))
        except Exception as e:  # noqa: BLE001 - a monitor must never disturb what it observes
            if len(STATE["violations"]) < 5 and not isinstance(e, (AttributeError,)):
                STATE["violations"].append("compute_interpolant post-condition could not be evaluated: %r" % (e,))
    si.SplineInterpolator1D.compute_interpolant = compute_interpolant
    STATE["installed"] = True
