"""C19: seeded argument streams for every exported kernel of the five accelerated modules,
tolerances and the comparison of two executions of one stream.

A *call* is a dict
    mod    accelerated module name (spline_eval_funcs, ...)
    fn     kernel name
    args   list of positional arguments (numpy arrays / python scalars)
    kwargs dict of keyword arguments
    out    indices of positional arguments updated in place (all other arrays must stay untouched)
    cls    argument-class label
    tol    {"abs": a, "rel": r}  -> |x-y| <= a + r*max|reference output|   (per output)
    tols   optional {output key: tol}     output key = "ret" | argument index
    circ   optional {output key: period}  compare modulo the period
    via    list of further kernels reached through this call (general_* through their wrappers)
    guard  optional name of a branch-ambiguity guard (poloidal steps)

Everything is derived from python's ``random.Random(seed)``; nothing here imports the code under
test (knot vectors, spans and coefficient arrays are built independently so that the stream is
in-domain whatever the tree under test does).
"""
import math
import random

import numpy as np

from vlib import splgen

EPS = 2.0 ** -52
C = 1.0e3
TWO_PI = 2 * math.pi          # the kernels use 2*pi from numpy: the same double

MODULES = {
    "spline_eval_funcs": "splines",
    "cubic_uniform_spline_eval_funcs": "splines",
    "initialiser_funcs": "initialisation",
    "poisson_tools": "poisson",
    "accelerated_advection_steps": "advection",
}
MOD_ORDER = ["spline_eval_funcs", "cubic_uniform_spline_eval_funcs", "initialiser_funcs", "poisson_tools",
             "accelerated_advection_steps"]

# kernels with callable parameters: reachable only through their wrappers
VIA = {
    "poloidal_advection_step_expl": ["general_poloidal_advection_step_expl"],
    "poloidal_advection_step_impl": ["general_poloidal_advection_step_impl"],
    "v_parallel_advection_eval_step": ["general_v_parallel_advection_eval_step"],
    "get_lagrange_vals": ["general_get_lagrange_vals"],
}


# ------------------------------------------------------------------------------------------------
# independent helpers


def make_knots(breaks, p, periodic):
    breaks = np.asarray(breaks, dtype=float)
    T = np.zeros(len(breaks) + 2 * p)
    T[p:-p] = breaks
    if periodic:
        period = breaks[-1] - breaks[0]
        T[0:p] = [xi - period for xi in breaks[-p - 1:-1]]
        T[-p:] = [xi + period for xi in breaks[1:p + 1]]
    else:
        T[0:p] = breaks[0]
        T[-p:] = breaks[-1]
    return T


def find_span(T, p, x):
    """knot span with the documented convention (left end -> p, right end and beyond -> last cell)"""
    lo, hi = p, len(T) - 1 - p
    if x <= T[lo]:
        return lo
    if x >= T[hi]:
        return hi - 1
    return int(np.searchsorted(T, x, side="right") - 1)


def farr(a):
    return np.ascontiguousarray(np.array(a, dtype=np.float64))


def _call(mod, fn, args, out=(), cls="", tol=None, kwargs=None, **extra):
    c = {"mod": mod, "fn": fn, "args": list(args), "kwargs": dict(kwargs or {}), "out": list(out), "cls": cls,
         "tol": tol or {"abs": 0.0, "rel": 0.0}}
    if fn in VIA:
        c["via"] = list(VIA[fn])
    c.update(extra)
    return c


def _tol(scale, kappa=1.0, rel=0.0):
    return {"abs": C * EPS * float(scale) * float(kappa) + 1e-300, "rel": float(rel)}


class Space:
    """One 1-D spline space described by plain arrays."""

    def __init__(self, rng, p, ncells, periodic, kind, a=None, b=None):
        self.p, self.ncells, self.periodic, self.kind = p, ncells, periodic, kind
        self.breaks = splgen.make_breaks(rng, ncells, kind, a, b)
        self.T = farr(make_knots(self.breaks, p, periodic))
        self.n = ncells + p                     # length of the coefficient vector the kernels index
        self.a, self.b = float(self.breaks[0]), float(self.breaks[-1])
        self.hmin = float(np.min(np.diff(self.breaks)))
        # cubic-uniform descriptor exactly as BSplines.__init__ builds it
        if p == 3 and kind == "uniform":
            dx = self.T[p + 1] - self.T[p]
            self.cu = farr([self.T[p], self.T[-p - 1], dx, ncells])
        else:
            self.cu = None
        # Greville-like abscissae of the n coefficients (only used to lay smooth data on them)
        self.absc = np.array([np.sum(self.T[i + 1:i + p + 1]) / p for i in range(self.n)])

    def label(self):
        return "p%d/%s/%s" % (self.p, "per" if self.periodic else "clamped", self.kind)

    def wrap(self, c):
        c = np.array(c, dtype=float, copy=True)
        if self.periodic:
            c[self.ncells:self.ncells + self.p] = c[:self.p]
        return c

    def coeffs(self, rng, rs):
        kind, v = rng.choice(splgen.coeff_vectors(rng, self.n))
        return kind.rstrip("0123456789"), farr(self.wrap(v))

    def points(self, rng, nrand=6, nknot=6):
        """(class, x) pairs inside the closed domain"""
        a, b = self.a, self.b
        pts = [("end-left", a), ("end-right", b), ("ulp-inside", float(np.nextafter(a, b))),
               ("ulp-inside", float(np.nextafter(b, a)))]
        inner = [float(x) for x in self.breaks[1:-1]]
        rng.shuffle(inner)
        for x in inner[:nknot]:
            pts.append(("cell-edge", x))
            pts.append(("edge-ulp", float(np.nextafter(x, a))))
            pts.append(("edge-ulp", float(np.nextafter(x, b))))
        for _ in range(nrand):
            pts.append(("interior", rng.uniform(a, b)))
        return pts

    def outside(self, rng):
        L = self.b - self.a
        return [("outside", self.a - rng.uniform(1e-9, 0.5) * L), ("outside", self.b + rng.uniform(1e-9, 0.5) * L),
                ("outside", float(np.nextafter(self.a, -np.inf))), ("outside", float(np.nextafter(self.b, np.inf)))]


def random_space(rng, fast=False, max_cells=24, periodic=None, a=None, b=None, p=None, kinds=None):
    if fast:
        p = 3
    elif p is None:
        p = rng.randint(1, 5)
    if periodic is None:
        periodic = rng.random() < 0.45
    lo = p + 1 if periodic else 1
    ncells = rng.choice([lo, lo + 1, lo + 2, rng.randint(lo, max(lo, 10)), rng.randint(lo, max(lo, max_cells))])
    kind = "uniform" if fast else rng.choice(list(kinds or ["uniform", "random", "graded", "alternating"]))
    return Space(rng, p, ncells, periodic, kind, a, b)


def _scal(rng, x):
    """python float or numpy float64 scalar (both occur in pygyro's callers)"""
    return float(x) if rng.random() < 0.7 else np.float64(x)


# ------------------------------------------------------------------------------------------------
# spline_eval_funcs (non-uniform)


def gen_nu_1d(rng, n):
    mod = "spline_eval_funcs"
    rs = np.random.RandomState(rng.randrange(1 << 31))
    calls = []
    for _ in range(n):
        S = random_space(rng)
        T, p = S.T, S.p
        lab = S.label()
        ckind, c = S.coeffs(rng, rs)
        cmax = float(np.abs(c).max()) or 1.0
        dscale = 2.0 * p / S.hmin
        pts = S.points(rng)
        for pc, x in pts + S.outside(rng):
            calls.append(_call(mod, "nu_find_span", [T, p, _scal(rng, x)], cls="%s/%s" % (lab, pc)))
        for pc, x in pts:
            sp = find_span(T, p, x)
            calls.append(_call(mod, "nu_basis_funs", [T, p, _scal(rng, x), sp, farr(rs.uniform(-1, 1, p + 1))], out=[4],
                               cls="%s/%s" % (lab, pc), tol=_tol(1.0, p + 1)))
            calls.append(_call(mod, "nu_basis_funs_1st_der", [T, p, _scal(rng, x), sp, farr(rs.uniform(-1, 1, p + 1))], out=[4],
                               cls="%s/%s" % (lab, pc), tol=_tol(dscale, p + 1)))
            for der in (0, 1):
                calls.append(_call(mod, "nu_eval_spline_1d_scalar", [_scal(rng, x), T, p, c, der],
                                   cls="%s/%s/der%d/%s" % (lab, pc, der, ckind), mech="der%d" % der,
                                   tol=_tol(cmax * (dscale if der else 1.0), p + 1)))
        # extrapolation branch of the basis functions: compared relative to the size of the values
        for pc, x in S.outside(rng)[:2]:
            sp = find_span(T, p, x)
            calls.append(_call(mod, "nu_basis_funs", [T, p, float(x), sp, farr(rs.uniform(-1, 1, p + 1))], out=[4],
                               cls="%s/%s" % (lab, pc), tol={"abs": 1e-300, "rel": C * EPS * (p + 1) * 8}))
        # vector kernel: all points at once, der omitted / positional / keyword
        xs = farr([x for _, x in pts])
        for variant in ("default", "pos0", "pos1", "kw1"):
            args = [xs, T, p, c, farr(rs.uniform(-1, 1, len(xs)))]
            kw = {}
            der = 0
            if variant == "pos0":
                args.append(0)
            elif variant == "pos1":
                args.append(1)
                der = 1
            elif variant == "kw1":
                kw = {"der": 1}
                der = 1
            calls.append(_call(mod, "nu_eval_spline_1d_vector", args, out=[4], kwargs=kw,
                               cls="%s/vector/%s/%s" % (lab, variant, ckind), mech="der%d" % der,
                               tol=_tol(cmax * (dscale if der else 1.0), p + 1)))
        # a strided (non-contiguous) view as evaluation points
        calls.append(_call(mod, "nu_eval_spline_1d_vector", [Strided(xs, 2), T, p, c, farr(rs.uniform(-1, 1, len(xs)))], out=[4],
                           cls="%s/vector/strided-x" % lab, tol=_tol(cmax, p + 1)))
    return calls


def _coeff2d(rng, rs, S1, S2):
    kind = rng.choice(["random", "smooth", "badly-scaled", "ones"])
    if kind == "random":
        c = rs.standard_normal((S1.n, S2.n))
    elif kind == "smooth":
        c = np.outer(np.cos(S1.absc), 1 + 0.3 * np.sin(S2.absc)) + 1e-3 * rs.standard_normal((S1.n, S2.n))
    elif kind == "badly-scaled":
        c = rs.standard_normal((S1.n, S2.n)) * 10.0 ** rs.uniform(-6, 6, (S1.n, S2.n))
    else:
        c = np.ones((S1.n, S2.n))
    if S1.periodic:
        c[S1.ncells:S1.ncells + S1.p, :] = c[:S1.p, :]
    if S2.periodic:
        c[:, S2.ncells:S2.ncells + S2.p] = c[:, :S2.p]
    return kind, farr(c)


_DER_VARIANTS = [("default", [], {}, (0, 0)), ("pos00", [0, 0], {}, (0, 0)), ("pos10", [1, 0], {}, (1, 0)),
                 ("pos01", [0, 1], {}, (0, 1)), ("pos11", [1, 1], {}, (1, 1)), ("pos1", [1], {}, (1, 0)),
                 ("kw-der2", [], {"der2": 1}, (0, 1)), ("kw-both", [], {"der1": 1, "der2": 1}, (1, 1))]


def _gen_2d(rng, n, fast):
    mod = "cubic_uniform_spline_eval_funcs" if fast else "spline_eval_funcs"
    pre = "cu" if fast else "nu"
    rs = np.random.RandomState(rng.randrange(1 << 31))
    calls = []
    for _ in range(n):
        S1 = random_space(rng, fast=fast, max_cells=12)
        S2 = random_space(rng, fast=fast, max_cells=12)
        k1, k2 = (S1.cu, S2.cu) if fast else (S1.T, S2.T)
        lab = "%s+%s" % (S1.label(), S2.label())
        ckind, c = _coeff2d(rng, rs, S1, S2)
        cmax = float(np.abs(c).max()) or 1.0
        d1s, d2s = 2.0 * S1.p / S1.hmin, 2.0 * S2.p / S2.hmin
        kap = (S1.p + 1) * (S2.p + 1)

        def tol(d):
            return _tol(cmax * (d1s if d[0] else 1.0) * (d2s if d[1] else 1.0), kap)
        P1 = S1.points(rng, nrand=3, nknot=2)
        P2 = S2.points(rng, nrand=3, nknot=2)
        rng.shuffle(P1)
        rng.shuffle(P2)
        # scalar kernel: every derivative variant on a few point pairs, corners included
        pairs = [(("end-left", S1.a), ("end-left", S2.a)), (("end-right", S1.b), ("end-right", S2.b)),
                 (("end-left", S1.a), ("end-right", S2.b))] + list(zip(P1[:5], P2[:5]))
        for (c1, x), (c2, y) in pairs:
            for vname, extra, kw, d in _DER_VARIANTS:
                calls.append(_call(mod, pre + "_eval_spline_2d_scalar", [_scal(rng, x), _scal(rng, y), k1, S1.p, k2, S2.p, c] + extra,
                                   kwargs=kw, cls="%s/%s,%s/%s/%s" % (lab, c1, c2, vname, ckind), tol=tol(d), mech="der%d%d" % d))
        X = farr([x for _, x in P1])
        Y = farr([y for _, y in P2])
        for vname, extra, kw, d in _DER_VARIANTS:
            calls.append(_call(mod, pre + "_eval_spline_2d_cross", [X, Y, k1, S1.p, k2, S2.p, c, farr(rs.uniform(-1, 1, (len(X), len(Y))))] + extra,
                               kwargs=kw, out=[7], cls="%s/cross/%s/%s" % (lab, vname, ckind), tol=tol(d), mech="der%d%d" % d))
        m = min(len(X), len(Y))
        for vname, extra, kw, d in _DER_VARIANTS:
            calls.append(_call(mod, pre + "_eval_spline_2d_vector", [farr(X[:m]), farr(Y[:m]), k1, S1.p, k2, S2.p, c, farr(rs.uniform(-1, 1, m))] + extra,
                               kwargs=kw, out=[7], cls="%s/vector/%s/%s" % (lab, vname, ckind), tol=tol(d), mech="der%d%d" % d))
    return calls


def gen_nu_2d(rng, n):
    return _gen_2d(rng, n, False)


# ------------------------------------------------------------------------------------------------
# cubic_uniform_spline_eval_funcs


def gen_cu_1d(rng, n):
    mod = "cubic_uniform_spline_eval_funcs"
    rs = np.random.RandomState(rng.randrange(1 << 31))
    calls = []
    for _ in range(n):
        S = random_space(rng, fast=True)
        k = S.cu
        xmin, xmax, dx, nc = float(k[0]), float(k[1]), float(k[2]), int(k[3])
        lab = S.label() + "/n%s" % ("1-3" if nc <= 3 else "4+")
        ckind, c = S.coeffs(rng, rs)
        cmax = float(np.abs(c).max()) or 1.0
        dscale = 2.0 * 3 / dx
        pts = S.points(rng)
        # points built the way a caller does: xmin + i*dx and linspace nodes
        pts += [("grid-node", min(xmax, xmin + i * dx)) for i in range(0, nc + 1, max(1, nc // 4))]
        pts = [(pc, min(max(x, xmin), xmax)) for pc, x in pts]
        for pc, x in pts:
            calls.append(_call(mod, "cu_find_span", [xmin, xmax, dx, _scal(rng, x), nc], cls="%s/%s" % (lab, pc),
                               tol=_tol(max(1.0, nc))))
            npos = (x - xmin) / dx
            sp = int(npos)
            off = npos - sp
            if sp == nc:
                sp, off = sp - 1, 1.0
            sp += 3
            calls.append(_call(mod, "cu_basis_funs", [sp, float(off), farr(rs.uniform(-1, 1, 4))], out=[2],
                               cls="%s/%s" % (lab, pc), tol=_tol(1.0, 4)))
            calls.append(_call(mod, "cu_basis_funs_1st_der", [sp, float(off), dx, farr(rs.uniform(-1, 1, 4))], out=[3],
                               cls="%s/%s" % (lab, pc), tol=_tol(dscale, 4)))
            for der in (0, 1):
                calls.append(_call(mod, "cu_eval_spline_1d_scalar", [_scal(rng, x), k, 3, c, der],
                                   cls="%s/%s/der%d/%s" % (lab, pc, der, ckind), mech="der%d" % der, tol=_tol(cmax * (dscale if der else 1.0), 4)))
        xs = farr([x for _, x in pts])
        for variant in ("default", "pos0", "pos1", "kw1"):
            args = [xs, k, 3, c, farr(rs.uniform(-1, 1, len(xs)))]
            kw = {}
            der = 0
            if variant == "pos0":
                args.append(0)
            elif variant == "pos1":
                args.append(1)
                der = 1
            elif variant == "kw1":
                kw = {"der": 1}
                der = 1
            calls.append(_call(mod, "cu_eval_spline_1d_vector", args, out=[4], kwargs=kw,
                               cls="%s/vector/%s/%s" % (lab, variant, ckind), mech="der%d" % der, tol=_tol(cmax * (dscale if der else 1.0), 4)))
    return calls


def gen_cu_2d(rng, n):
    return _gen_2d(rng, n, True)


# ------------------------------------------------------------------------------------------------
# initialiser_funcs


def _phys(rng):
    """physical constants around pygyro's defaults"""
    rmin = rng.uniform(0.05, 1.0)
    rmax = rng.uniform(3.0, 15.0)
    d = {"rmin": rmin, "rmax": rmax, "rp": rng.choice([0.5 * (rmin + rmax), rng.uniform(rmin, rmax)]),
         "kN0": rng.choice([0.055, rng.uniform(0.0, 0.3)]), "kTi": rng.choice([0.27586, rng.uniform(0.0, 0.5)]),
         "deltaRTi": rng.choice([1.45, rng.uniform(0.3, 4.0)]), "CTi": rng.choice([1.0, rng.uniform(0.5, 2.0)]),
         "R0": rng.choice([239.8081535, rng.uniform(5, 500)]), "m": rng.choice([15, 0, rng.randint(-20, 20)]),
         "n": rng.choice([1, -11, 0, rng.randint(-12, 12)]), "eps": rng.choice([1e-6, 1e-3, 0.0, 0.5]),
         "B0": rng.choice([1.0, rng.uniform(0.5, 3.0)])}
    d["deltaRN0"] = rng.choice([2 * d["deltaRTi"], rng.uniform(0.3, 6.0)])
    d["deltaR"] = rng.choice([4.0 * d["deltaRN0"] / d["deltaRTi"], rng.uniform(0.5, 20.0)])
    d["CN0"] = rng.choice([0.014, rng.uniform(1e-3, 2.0)])
    d["vmax"] = rng.choice([7.32, rng.uniform(2.0, 8.0)])
    return d


def _feq_kappa(d, vmax):
    """condition of f_eq wrt rounding of the arguments of exp: 1 + |exponents|"""
    a_n = abs(d["kN0"] * d["deltaRN0"])
    a_t = abs(d["kTi"] * d["deltaRTi"])
    # |d exp(-x)| <= eps*x*exp(-x) <= eps/e whatever x = v^2/(2 Ti): the velocity does not enter
    return 6.0 + a_n + 3 * a_t


def _feq_max(d):
    a_n = abs(d["kN0"] * d["deltaRN0"])
    a_t = abs(d["kTi"] * d["deltaRTi"])
    return d["CN0"] * math.exp(a_n) / math.sqrt(TWO_PI * d["CTi"] * math.exp(-a_t))


def gen_init(rng, n):
    mod = "initialiser_funcs"
    rs = np.random.RandomState(rng.randrange(1 << 31))
    calls = []
    for _ in range(n):
        d = _phys(rng)
        rr = [d["rmin"], d["rmax"], d["rp"]] + [rng.uniform(d["rmin"], d["rmax"]) for _ in range(3)]
        vmax = d["vmax"]
        vv = [0.0, -vmax, vmax] + [rng.uniform(-vmax, vmax) for _ in range(3)]
        kap = _feq_kappa(d, vmax)
        fmax = _feq_max(d)
        a_n = abs(d["kN0"] * d["deltaRN0"])
        a_t = abs(d["kTi"] * d["deltaRTi"])
        feq_args = [d["CN0"], d["kN0"], d["deltaRN0"], d["rp"], d["CTi"], d["kTi"], d["deltaRTi"]]
        for r in rr:
            rc = "r-edge" if r in (d["rmin"], d["rmax"]) else ("r-peak" if r == d["rp"] else "r-interior")
            calls.append(_call(mod, "n0", [_scal(rng, r), d["CN0"], d["kN0"], d["deltaRN0"], d["rp"]], cls=rc,
                               tol=_tol(d["CN0"] * math.exp(a_n), 2 + a_n)))
            calls.append(_call(mod, "Ti", [_scal(rng, r), d["CTi"], d["kTi"], d["deltaRTi"], d["rp"]], cls=rc,
                               tol=_tol(d["CTi"] * math.exp(a_t), 2 + a_t)))
            calls.append(_call(mod, "Te", [_scal(rng, r), d["CTi"], d["kTi"], d["deltaRTi"], d["rp"]], cls=rc,
                               tol=_tol(d["CTi"] * math.exp(a_t), 2 + a_t)))
            calls.append(_call(mod, "n0deriv_normalised", [_scal(rng, r), d["kN0"], d["rp"], d["deltaRN0"]], cls=rc,
                               tol=_tol(abs(d["kN0"]) + 1e-3, 8)))
            v = rng.choice(vv)
            calls.append(_call(mod, "f_eq", [_scal(rng, r), _scal(rng, v)] + feq_args, cls=rc, tol=_tol(fmax, kap)))
            th = rng.choice([0.0, TWO_PI, rng.uniform(0, TWO_PI)])
            z = rng.choice([0.0, rng.uniform(0, TWO_PI * d["R0"])])
            parg = abs(d["m"] * th) + abs(d["n"] * z / d["R0"]) + (r - d["rp"]) ** 2 / d["deltaR"]
            calls.append(_call(mod, "perturbation", [_scal(rng, r), _scal(rng, th), _scal(rng, z), d["m"], d["n"], d["rp"], d["deltaR"], d["R0"]],
                               cls=rc + ("/m0" if d["m"] == 0 else ""), tol=_tol(1.0, 4 + parg)))
            calls.append(_call(mod, "init_f", [_scal(rng, r), _scal(rng, th), _scal(rng, z), _scal(rng, v), d["m"], d["n"], d["eps"]] + feq_args + [d["deltaR"], d["R0"]],
                               cls=rc + "/eps%g" % d["eps"], tol=_tol(fmax * (1 + abs(d["eps"])), kap + 4 + parg)))
        nth, nz, nv, nr = rng.randint(1, 6), rng.randint(1, 5), rng.randint(1, 7), rng.randint(1, 6)
        theta = farr(np.linspace(0, TWO_PI, nth, endpoint=False))
        zvec = farr(np.linspace(0, TWO_PI * d["R0"], nz, endpoint=False))
        vvec = farr(np.linspace(-vmax, vmax, nv)) if nv > 1 else farr([0.0])
        rvec = farr(np.linspace(d["rmin"], d["rmax"], nr)) if nr > 1 else farr([d["rp"]])
        r, z, v = rng.choice(rr), rng.choice([0.0, float(zvec[-1])]), rng.choice(vv)
        parg = abs(d["m"]) * TWO_PI + abs(d["n"]) * TWO_PI + (d["rmax"] - d["rmin"]) ** 2 / d["deltaR"]
        tl = _tol(fmax * (1 + abs(d["eps"])), kap + 4 + parg)
        tail = [d["m"], d["n"], d["eps"]] + feq_args + [d["deltaR"], d["R0"]]
        shp = "%dx" % min(nth, 2)
        calls.append(_call(mod, "init_f_flux", [farr(rs.uniform(-1, 1, (nth, nz))), float(r), theta, zvec, float(v)] + tail, out=[0],
                           cls="shape%s%d" % (shp, min(nz, 2)), tol=tl))
        calls.append(_call(mod, "init_f_pol", [farr(rs.uniform(-1, 1, (nth, nr))), rvec, theta, float(z), float(v)] + tail, out=[0],
                           cls="shape%s%d" % (shp, min(nr, 2)), tol=tl))
        calls.append(_call(mod, "init_f_vpar", [farr(rs.uniform(-1, 1, (nth, nv))), float(r), theta, float(z), vvec] + tail, out=[0],
                           cls="shape%s%d" % (shp, min(nv, 2)), tol=tl))
        calls.append(_call(mod, "feq_vector", [farr(rs.uniform(-1, 1, (nr, nv))), rvec, vvec] + feq_args, out=[0],
                           cls="shape%dx%d" % (min(nr, 2), min(nv, 2)), tol=_tol(fmax, kap)))
        # a slice of a larger array, as Grid.get2DSlice hands out
        big = farr(rs.uniform(-1, 1, (2, 3, nth, nz)))
        calls.append(_call(mod, "init_f_flux", [big[1, 2], float(r), theta, zvec, float(v)] + tail, out=[0], cls="slice-of-4d", tol=tl))
    return calls


# ------------------------------------------------------------------------------------------------
# poisson_tools


def gen_poisson(rng, n):
    mod = "poisson_tools"
    rs = np.random.RandomState(rng.randrange(1 << 31))
    calls = []
    for _ in range(n):
        nr, nz, nq, nv = rng.randint(1, 5), rng.randint(1, 4), rng.randint(1, 6), rng.choice([1, 2, rng.randint(3, 17)])
        q = farr(rs.uniform(0, 1, nv) * rng.choice([1.0, 1e-3, 30.0]))
        if rng.random() < 0.3:
            q[rng.randrange(nv)] *= -1
        amp = rng.choice([1.0, 1e-6, 1e4])
        grid = farr(rs.standard_normal((nr, nz, nq, nv)) * amp)
        feq = farr(rs.uniform(0, 1, (nr, nv)) * amp)
        scale = float(np.abs(q).max() * (np.abs(grid).max() + np.abs(feq).max())) or 1.0
        for dt in (np.float64, np.complex128):
            dn = "real" if dt is np.float64 else "complex"
            rho0 = rs.uniform(-1, 1, (nr, nz, nq)).astype(dt)
            if dt is np.complex128:
                rho0 = rho0 + 1j * rs.uniform(-1, 1, (nr, nz, nq))
            shp = "nv%s" % ("1" if nv == 1 else "2+")
            calls.append(_call(mod, "get_perturbed_rho", [np.ascontiguousarray(rho0), feq, grid, q], out=[0],
                               cls="%s/%s" % (dn, shp), tol=_tol(scale, nv + 1), mech=dn))
            calls.append(_call(mod, "get_rho", [np.ascontiguousarray(rho0.copy()), grid, q], out=[0],
                               cls="%s/%s" % (dn, shp), tol=_tol(scale, nv + 1), mech=dn))
    return calls


# ------------------------------------------------------------------------------------------------
# accelerated_advection_steps


def gen_flux(rng, n):
    mod = "accelerated_advection_steps"
    rs = np.random.RandomState(rng.randrange(1 << 31))
    calls = []
    for _ in range(n):
        nq, nr, k = rng.randint(1, 7), rng.randint(1, 6), rng.choice([1, 2, 4, 6, 7])
        coeffs = farr(rs.uniform(-1, 1, k))
        vals = farr(rs.standard_normal((nr, nq, k)) * rng.choice([1.0, 1e-5, 1e3]))
        calls.append(_call(mod, "flux_advection", [nq, nr, farr(rs.uniform(-1, 1, (nq, nr))), coeffs, vals], out=[2],
                           cls="k%d" % k, tol=_tol(float(np.abs(coeffs).max() * np.abs(vals).max()) or 1.0, k + 1)))
    for _ in range(n):
        fast = rng.random() < 0.5
        S = random_space(rng, fast=fast, periodic=True, a=0.0, b=TWO_PI, max_cells=16)
        kts = S.cu if fast else S.T
        ckind, c = S.coeffs(rng, rs)
        cmax = float(np.abs(c).max()) or 1.0
        nz, nth, ns = rng.randint(1, 6), rng.randint(1, 8), rng.choice([1, 2, 6, 7])
        lo = -(ns // 2)
        shifts = np.ascontiguousarray(np.arange(lo, lo + ns, dtype=np.int64))
        if rng.random() < 0.3:
            shifts = np.ascontiguousarray(shifts * rng.choice([2, -3, nz + 1]))
        qv = farr(np.linspace(0, TWO_PI, nth, endpoint=False))
        ths = farr(rs.uniform(-1, 1, ns) * rng.choice([1e-3, 1.0, 20.0]))
        if rng.random() < 0.3:
            ths[0] = 0.0
        i = rng.randrange(nz)
        vals = farr(rs.uniform(-1, 1, (nz, nth, ns)))
        lip = 2.0 * S.p / S.hmin
        calls.append(_call(mod, "get_lagrange_vals", [i, shifts, vals, qv, ths, kts, S.p, c, bool(fast)], out=[2],
                           cls="%s/%s/%s" % ("cu" if fast else "nu", S.label(), ckind),
                           tol=_tol(cmax * (1 + lip * (TWO_PI + float(np.abs(ths).max()))), S.p + 1), mech="cu" if fast else "nu"))
    return calls


def gen_vpar(rng, n):
    mod = "accelerated_advection_steps"
    rs = np.random.RandomState(rng.randrange(1 << 31))
    calls = []
    for _ in range(n):
        d = _phys(rng)
        fast = rng.random() < 0.5
        vmax = d["vmax"]
        S = random_space(rng, fast=fast, periodic=False, a=-vmax, b=vmax, max_cells=20)
        kts = S.cu if fast else S.T
        vMin, vMax = S.a, S.b
        D = vMax - vMin
        ckind, c = S.coeffs(rng, rs)
        cmax = float(np.abs(c).max()) or 1.0
        nodes = np.linspace(vMin, vMax, rng.randint(2, 12))
        feq_args = [d["CN0"], d["kN0"], d["deltaRN0"], d["rp"], d["CTi"], d["kTi"], d["deltaRTi"]]
        for bound in (0, 1, 2):
            for sname, shift in [("zero", 0.0), ("tiny", rng.choice([-1, 1]) * 1e-13 * D), ("sub-cell", rng.uniform(-1, 1) * S.hmin),
                                 ("cells", rng.uniform(-0.5, 0.5) * D), ("exact-domain", rng.choice([-1, 1]) * D),
                                 ("multi-domain", rng.uniform(-3.5, 3.5) * D)]:
                vpts = farr(nodes - shift)
                # feet stay bounded: |v| <= |vmax| + 4.5 D; f_eq there is tiny but finite
                vfar = float(np.abs(vpts).max())
                kap = _feq_kappa(d, vfar)
                r = rng.uniform(d["rmin"], d["rmax"])
                calls.append(_call(mod, "v_parallel_advection_eval_step",
                                   [farr(rs.uniform(-1, 1, len(vpts))), vpts, _scal(rng, r), vMin, vMax, kts, S.p, c] + feq_args + [bound, bool(fast)],
                                   out=[0], cls="%s/bound%d/%s/%s" % ("cu" if fast else "nu-p%d" % S.p, bound, sname, ckind),
                                   tol=_tol(cmax + _feq_max(d), (S.p + 1) + kap), mech="%s/bound%d" % ("cu" if fast else "nu", bound)))
    return calls


def _poloidal_setup(rng, rs, fast, degs=(1, 2, 3, 3, 4, 5)):
    d = _phys(rng)
    Sq = random_space(rng, fast=fast, periodic=True, a=0.0, b=TWO_PI, max_cells=9, p=None if fast else rng.choice(list(degs)), kinds=["uniform", "random"])
    Sr = random_space(rng, fast=fast, periodic=False, a=d["rmin"], b=d["rmax"], max_cells=8, p=None if fast else rng.choice(list(degs)), kinds=["uniform", "random"])
    if Sr.ncells < 2:
        Sr = Space(rng, Sr.p, 2 + rng.randint(0, 3), False, Sr.kind, d["rmin"], d["rmax"])
    nq, nr = rng.randint(3, 8), rng.randint(3, 7)
    qPts = farr(np.linspace(0, TWO_PI, nq, endpoint=False))
    rPts = farr(np.linspace(Sr.a, Sr.b, nr))
    rPts[0], rPts[-1] = Sr.a, Sr.b
    m = rng.choice([1, 1, 2])
    ph0 = rng.uniform(0.3, 0.9) + rng.choice([0, 1, 2, 3]) * math.pi / 2 / m   # keeps cos/sin(m q + ph0) off zero on the nodes
    g = 1.0 + 0.5 * np.sin(math.pi * (Sr.absc - Sr.a) / (Sr.b - Sr.a))
    A = rng.choice([0.3, 1.0, 3.0])
    cphi = A * np.outer(np.cos(m * Sq.absc + ph0), g) + 1e-3 * A * rs.standard_normal((Sq.n, Sr.n))
    cphi[Sq.ncells:Sq.ncells + Sq.p, :] = cphi[:Sq.p, :]
    cphi = farr(cphi)
    rmid = 0.5 * (Sr.a + Sr.b)
    cpol = np.outer(1 + 0.4 * np.cos(Sq.absc + 0.3), np.exp(-((Sr.absc - rmid) / (Sr.b - Sr.a)) ** 2 * 4)) * rng.choice([1.0, 1e-3, 20.0]) \
        + 1e-2 * rs.standard_normal((Sq.n, Sr.n))
    cpol[Sq.ncells:Sq.ncells + Sq.p, :] = cpol[:Sq.p, :]
    cpol = farr(cpol)
    return d, Sq, Sr, qPts, rPts, cphi, cpol, A, m


def _sample_cells(breaks, per_cell=6):
    out = []
    for lo, hi in zip(breaks[:-1], breaks[1:]):
        h = hi - lo
        out.extend(np.linspace(lo + 1e-9 * h, hi - 1e-9 * h, per_cell))
    return np.array(out)


def drift_bounds(Sq, Sr, cphi):
    """max |d_r phi / r|, max |d_q phi / r| and a bound of the max-norm Lipschitz constant of the drift field
    (-d_r phi / r, d_q phi / r) over the domain, from scipy's B-splines on a per-cell sample (x 1.5)"""
    from scipy.interpolate import BSpline
    xq, xr = _sample_cells(Sq.breaks), _sample_cells(Sr.breaks)
    bq = BSpline(Sq.T, np.eye(Sq.n), Sq.p)
    br = BSpline(Sr.T, np.eye(Sr.n), Sr.p)

    def mats(b, x, p):
        out = [b(x)]
        for k in (1, 2):
            out.append(b.derivative(k)(x) if k <= p else np.zeros((len(x), b.c.shape[0])))
        return out
    q0, q1, q2 = mats(bq, xq, Sq.p)
    r0, r1, r2 = mats(br, xr, Sr.p)
    R = xr[None, :]
    f_q, f_r = q1 @ cphi @ r0.T, q0 @ cphi @ r1.T
    f_qq, f_qr, f_rr = q2 @ cphi @ r0.T, q1 @ cphi @ r1.T, q0 @ cphi @ r2.T
    vq = float(np.max(np.abs(f_r) / R))
    vr = float(np.max(np.abs(f_q) / R))
    row1 = np.abs(f_qr) / R + np.abs(f_rr) / R + np.abs(f_r) / R ** 2
    row2 = np.abs(f_qq) / R + np.abs(f_qr) / R + np.abs(f_q) / R ** 2
    lip = 1.5 * float(max(row1.max(), row2.max()))
    return vq, vr, lip


def gen_poloidal(rng, n, scheme):
    """scheme: 'expl' | 'impl'"""
    mod = "accelerated_advection_steps"
    rs = np.random.RandomState(rng.randrange(1 << 31))
    calls = []
    for it in range(n):
        fast = rng.random() < 0.5
        # implicit scheme: the drift must be Lipschitz for the fixed-point iteration to converge -> degree >= 2
        d, Sq, Sr, qPts, rPts, cphi, cpol, A, m = _poloidal_setup(rng, rs, fast, (2, 3, 3, 4, 5) if scheme == "impl" else (1, 2, 3, 3, 4, 5))
        k1, k2 = (Sq.cu, Sr.cu) if fast else (Sq.T, Sr.T)
        nq, nr = len(qPts), len(rPts)
        B0 = d["B0"]
        hr = (Sr.b - Sr.a) / max(nr - 1, 1)
        # rigorous (coarse) bounds from the coefficient matrix -- a derivative of a spline is bounded by 2p/h times
        # the coefficient range -- enter the tolerances only
        dq_s, dr_s = 2.0 * Sq.p / Sq.hmin, 2.0 * Sr.p / Sr.hmin
        cpm = float(np.abs(cphi).max())
        disp = rng.choice([0.05, 0.3]) if scheme == "impl" else rng.choice([0.05, 0.3, 1.0])
        # measured (sampled, independent scipy evaluation) size of the drift and of its Jacobian: the time step
        # moves a foot by about `disp` radial grid cells and, for the implicit scheme, keeps the fixed-point map
        # a contraction with factor <= 1/4 (an unbounded iteration is C12's subject, not this property's)
        vq, vr, lip = drift_bounds(Sq, Sr, cphi)
        dt = disp * min(hr, 1.0) * B0 / max(vr, 1e-300)
        dt = min(dt, 0.5 * (TWO_PI / len(qPts)) * B0 / max(vq, 1e-300) * 4)
        if scheme == "impl":
            dt = min(dt, B0 / (3.0 * max(lip, 1e-300)))
        dt *= rng.choice([-1, 1])
        if rng.random() < 0.15:
            dt = 0.0
        v = rng.uniform(-d["vmax"], d["vmax"])
        ws = [farr(rs.uniform(-1, 1, (nq, nr))) for _ in range(8)]
        f = farr(rs.uniform(-1, 1, (nq, nr)))
        consts = [d["CN0"], d["kN0"], d["deltaRN0"], d["rp"], d["CTi"], d["kTi"], d["deltaRTi"], B0]
        nb = rng.choice(["default", True, False])
        args = [f, float(dt), _scal(rng, v), rPts, qPts] + ws + [k1, k2, cphi, Sq.p, Sr.p, k1, k2, cpol, Sq.p, Sr.p] + consts
        tolv = None
        if scheme == "impl":
            tolv = rng.choice([1e-8, 1e-10, 1e-12])
            args.append(tolv)
        args.append(bool(fast))
        if nb != "default":
            args.append(nb)
        # tolerances: derivatives of phi, end points, final values
        cpolm = float(np.abs(cpol).max())
        t_der = C * EPS * cpm * max(dq_s, dr_s) * (Sq.p + 1) * (Sr.p + 1) / Sr.a
        amp = abs(dt) / B0
        lip_phi = cpm * (dq_s + dr_s) ** 2 / Sr.a * (1 + 1 / Sr.a)       # Lipschitz bound of the drift field
        t_pts = C * EPS * (TWO_PI + Sr.b) + 4 * amp * t_der * (1 + amp * lip_phi)
        if scheme == "impl":
            t_pts *= 10.0       # the fixed point is reached along slightly different iterates
            t_der *= 10.0
            t_der += lip_phi * t_pts
        else:
            t_der += lip_phi * t_pts
        kap_f = _feq_kappa(d, d["vmax"])
        t_f = C * EPS * (cpolm * (Sq.p + 1) * (Sr.p + 1) + _feq_max(d) * kap_f) + cpolm * (dq_s + dr_s) * t_pts
        tols = {0: {"abs": t_f, "rel": 0.0}}
        for k in (5, 6, 7, 8):
            tols[k] = {"abs": t_der, "rel": 0.0}
        for k in (9, 10, 11, 12):
            tols[k] = {"abs": t_pts, "rel": 0.0}
        fn = "poloidal_advection_step_" + scheme
        calls.append(_call(mod, fn, args, out=[0, 5, 6, 7, 8, 9, 10, 11, 12],
                           cls="%s/%s+%s/nulBound-%s/%s" % ("cu" if fast else "nu", Sq.label(), Sr.label(), nb,
                                                           "dt0" if dt == 0 else ("disp%g" % disp)),
                           tol={"abs": t_pts, "rel": 0.0}, tols=tols, circ={9: TWO_PI, 11: TWO_PI}, mech="%s/nulBound-%s" % ("cu" if fast else "nu", nb),
                           guard={"kind": "poloidal", "scheme": scheme, "g": t_pts, "tol_index": (31 if scheme == "impl" else None)}))
    return calls


def gen_pol_expl(rng, n):
    return gen_poloidal(rng, n, "expl")


def gen_pol_impl(rng, n):
    return gen_poloidal(rng, n, "impl")


# family -> (module, generator, draws in quick, draws in thorough, relative cost)
FAMILIES = {
    "nu_1d": ("spline_eval_funcs", gen_nu_1d, 8, 24, 2),
    "nu_2d": ("spline_eval_funcs", gen_nu_2d, 6, 16, 4),
    "cu_1d": ("cubic_uniform_spline_eval_funcs", gen_cu_1d, 8, 24, 1),
    "cu_2d": ("cubic_uniform_spline_eval_funcs", gen_cu_2d, 6, 16, 3),
    "init": ("initialiser_funcs", gen_init, 8, 24, 1),
    "poisson": ("poisson_tools", gen_poisson, 10, 30, 2),
    "flux": ("accelerated_advection_steps", gen_flux, 16, 48, 1),
    "vpar": ("accelerated_advection_steps", gen_vpar, 6, 18, 1),
    "pol_expl": ("accelerated_advection_steps", gen_pol_expl, 10, 30, 5),
    "pol_impl": ("accelerated_advection_steps", gen_pol_impl, 10, 30, 8),
}
FAMILIES_OF_MODULE = {}
for _f, (_m, _g, _a, _b, _c) in FAMILIES.items():
    FAMILIES_OF_MODULE.setdefault(_m, []).append(_f)


def stream(family, seed, n):
    rng = random.Random("%s/%d" % (family, seed))
    return FAMILIES[family][1](rng, n)


# ------------------------------------------------------------------------------------------------
# executing a stream against a namespace {module: python module}


class Strided:
    """a 1-D non-contiguous view (base[::step]) as an argument; survives pickling as a view"""

    def __init__(self, data, step=2):
        self.data = np.array(data, dtype=np.float64)
        self.step = int(step)

    def view(self):
        big = np.zeros(len(self.data) * self.step, dtype=self.data.dtype)
        big[::self.step] = self.data
        return big[::self.step]


def copy_arg(a):
    if isinstance(a, Strided):
        return a.view()
    if isinstance(a, np.ndarray):
        return np.array(a, copy=True, order="C")
    return a


def run_call(fn, call):
    """-> record {"exc": None|(type, msg), "ret": value, "arrs": {idx: array after the call}}"""
    args = [copy_arg(a) for a in call["args"]]
    kwargs = dict(call["kwargs"])
    rec = {"exc": None, "ret": None, "arrs": {}}
    try:
        rec["ret"] = fn(*args, **kwargs)
    except Exception as e:  # noqa: BLE001
        rec["exc"] = (type(e).__name__, str(e)[:300])
    for i, a in enumerate(args):
        if isinstance(a, np.ndarray):
            rec["arrs"][i] = np.array(a, copy=True)
    r = rec["ret"]
    if isinstance(r, np.ndarray):
        rec["ret"] = np.array(r, copy=True)
    return rec


# ------------------------------------------------------------------------------------------------
# comparison


def _is_int(x):
    return isinstance(x, (int, np.integer)) and not isinstance(x, (bool, np.bool_))


def _is_real(x):
    return isinstance(x, (float, np.floating)) or _is_int(x)


def _bits_equal(a, b):
    a, b = np.asarray(a), np.asarray(b)
    if a.shape != b.shape or a.dtype != b.dtype:
        return False
    return a.tobytes() == b.tobytes()


def _cmp_float(ref, got, tol, period=None, mask=None):
    """-> None | (index, ref, got, diff, allowed)"""
    ref = np.asarray(ref)
    got = np.asarray(got)
    if ref.shape != got.shape:
        return ("shape", list(ref.shape), list(got.shape), None, None)
    if ref.size == 0:
        return None
    fin_r, fin_g = np.isfinite(ref), np.isfinite(got)
    diff = np.abs(got - ref)
    if period is not None:
        diff = np.minimum(diff, np.abs(period - diff))
    allowed = tol["abs"] + tol["rel"] * (float(np.max(np.abs(ref[fin_r]))) if fin_r.any() else 0.0)
    bad = ~(diff <= allowed)
    # identical non-finite values (inf==inf, nan with nan) agree
    same_nonfinite = (~fin_r) & (~fin_g) & ((np.isnan(ref) & np.isnan(got)) | (ref == got))
    bad &= ~same_nonfinite
    if mask is not None:
        bad &= ~mask
    if bad.any():
        idx = np.unravel_index(int(np.argmax(np.where(bad, np.where(np.isfinite(diff), diff, np.inf), -1))), ref.shape) if ref.ndim else ()
        r, g = ref[idx], got[idx]
        return ([int(i) for i in idx], _py(r), _py(g), _py(diff[idx]), allowed)
    return None


def _py(x):
    x = np.asarray(x)
    if np.iscomplexobj(x):
        return [float(x.real), float(x.imag)]
    return float(x)


def poloidal_masks(call, ref):
    """Entries whose branch (inside / outside the radial domain) is decided within rounding of the
    threshold are excluded: there the property's 'up to reassociation' does not determine the result.
    -> (mask for first-stage arrays, mask for everything downstream, count)"""
    g = call["guard"]["g"]
    rPts = call["args"][3]
    lo, hi = rPts[0], rPts[-1]
    k1r = ref["arrs"][10]
    k2r = ref["arrs"][12]

    def near(a):
        return (np.abs(a - lo) <= g) | (np.abs(a - hi) <= g)
    if call["guard"]["scheme"] == "expl" and call["args"][1] != 0.0:
        # stage 1 feet rPts[j] + dthetaPhi_0*mf and stage 2 feet are compared with the ends of the radial grid
        m1 = near(k1r)
        m2 = m1 | near(k2r)
        return m1, m2
    # dt == 0: every foot is a node, bit for bit, in any implementation.  Implicit scheme: feet are
    # clipped into the domain and the final value is continuous in them
    z = np.zeros(k2r.shape, dtype=bool)
    return z, z


def compare(call, ref, got, alt_refs=()):
    """-> (verdict, detail)   verdict: 'ok' | 'both-raise' | mismatch kind
    mismatch kinds: exception, return-type, int, value, input-modified"""
    if ref["exc"] is not None and got["exc"] is not None:
        return "both-raise", {"ref_exc": ref["exc"], "got_exc": got["exc"]}
    if (ref["exc"] is None) != (got["exc"] is None):
        return "exception", {"ref_exc": ref["exc"], "got_exc": got["exc"]}
    out = set(call["out"])
    tols = {str(k): v for k, v in (call.get("tols") or {}).items()}
    circ = {str(k): v for k, v in (call.get("circ") or {}).items()}
    masks = {}
    if call.get("guard") and call["guard"].get("kind") == "poloidal":
        m1, m2 = poloidal_masks(call, ref)
        for k in (7, 8):
            masks[str(k)] = m1
        for k in (0, 11, 12):
            masks[str(k)] = m2
        # k1 arrays in the explicit scheme keep the stage-1 feet; in the implicit scheme they end as copies of k2
    # return value
    r, g = ref["ret"], got["ret"]
    rt = r if isinstance(r, tuple) else (r,)
    gt = g if isinstance(g, tuple) else (g,)
    if isinstance(r, tuple) != isinstance(g, tuple) or len(rt) != len(gt):
        return "return-type", {"ref": repr(r)[:200], "got": repr(g)[:200]}
    for k, (a, b) in enumerate(zip(rt, gt)):
        if a is None or b is None:
            if not (a is None and b is None):
                return "return-type", {"ref": repr(r)[:200], "got": repr(g)[:200]}
            continue
        if _is_int(a):
            if not _is_int(b):
                return "return-type", {"ref": repr(r)[:200], "got": repr(g)[:200], "note": "integer result returned as %s" % type(b).__name__}
            if int(a) != int(b):
                return "int", {"component": k, "ref": int(a), "got": int(b)}
            continue
        if isinstance(a, np.ndarray) or _is_real(a) or isinstance(a, (complex, np.complexfloating)):
            if not (isinstance(b, np.ndarray) or _is_real(b) or isinstance(b, (complex, np.complexfloating))):
                return "return-type", {"ref": repr(r)[:200], "got": repr(g)[:200]}
            if _is_int(b) and not _is_int(a):
                return "return-type", {"ref": repr(r)[:200], "got": repr(g)[:200], "note": "float result returned as integer"}
            bad = _cmp_float(a, b, tols.get("ret", call["tol"]), circ.get("ret"))
            if bad:
                return "value", {"output": "return[%d]" % k, "index": bad[0], "ref": bad[1], "got": bad[2], "diff": bad[3], "allowed": bad[4]}
            continue
        if a != b:
            return "value", {"output": "return[%d]" % k, "ref": repr(a)[:100], "got": repr(b)[:100]}
    # arrays
    for i, a in ref["arrs"].items():
        b = got["arrs"].get(i)
        if b is None:
            return "return-type", {"note": "array argument %d missing on one side" % i}
        if i not in out:
            orig = call["args"][i]
            if not _bits_equal(np.asarray(a), np.asarray(b)):
                return "input-modified", {"arg": i, "ref_changed": not _bits_equal(a, np.array(orig)), "got_changed": not _bits_equal(b, np.array(orig))}
            continue
        bad = _cmp_float(a, b, tols.get(str(i), call["tol"]), circ.get(str(i)), masks.get(str(i)))
        if bad:
            return "value", {"output": "arg[%d]" % i, "index": bad[0], "ref": bad[1], "got": bad[2], "diff": bad[3], "allowed": bad[4]}
    return "ok", None


def summarize_args(call, limit=12):
    """JSON-friendly short description of a call's arguments for a witness"""
    out = []
    for a in call["args"]:
        if isinstance(a, np.ndarray):
            if a.size <= limit:
                out.append({"array": a.tolist() if not np.iscomplexobj(a) else [[float(z.real), float(z.imag)] for z in a.ravel()],
                            "shape": list(a.shape), "dtype": str(a.dtype)})
            else:
                out.append({"shape": list(a.shape), "dtype": str(a.dtype), "head": np.asarray(a).ravel()[:6].real.tolist(),
                            "absmax": float(np.abs(a).max())})
        elif isinstance(a, (np.floating, np.integer, np.bool_)):
            out.append(a.item())
        else:
            out.append(a)
    return out
