"""Run the real driver (fullSimulation.main) on simulated ranks with the mpio emulation."""
import importlib
import json
import os
import sys

import numpy as np


def write_constants(path, npts, dt=2, iota=0.0, extra=None, order=None):
    from math import pi
    R0 = 4.0
    d = {"npts": list(npts), "splineDegrees": [3, 3, 3, 3], "dt": dt, "rMin": 0.4, "rMax": 6.0, "zMin": 0.0, "R0": R0, "zMax": 2 * pi * R0,
         "vMax": 4.5, "vMin": -4.5, "eps": 0.05, "m": 2, "n": 1, "iotaVal": iota}
    if extra:
        d.update(extra)
    if order:
        d = {k: d[k] for k in order if k in d}
    with open(path, "w") as f:
        json.dump(d, f)
    return d


def run_driver(P, argv, cwd, sched="random", seed=0, timeout=900):
    """argv: list of command-line arguments for fullSimulation.py (without the program name)"""
    from mpi4py import MPI
    from vlib import simh5, paths
    simh5.install()
    fs = importlib.import_module("fullSimulation")
    paths.assert_repo(fs)
    old_argv, old_cwd = sys.argv, os.getcwd()
    os.makedirs(cwd, exist_ok=True)
    os.chdir(cwd)
    sys.argv = ["fullSimulation.py"] + [str(a) for a in argv]
    try:
        w = MPI.run_world(P, lambda rank: fs.main(), schedule=sched, seed=seed, timeout=timeout)
    finally:
        sys.argv = old_argv
        os.chdir(old_cwd)
    return w


def read_h5(path):
    import h5py
    opener = getattr(h5py, "File")
    with opener(path, "r") as f:
        d = f["/dset"]
        return np.array(d[...]), [int(x) for x in d.attrs["Layout"]]


def to_eta_order(data, order):
    inv = [0] * len(order)
    for i, j in enumerate(order):
        inv[j] = i
    return np.transpose(data, inv)
