"""Independent reference mathematics for the /verif oracles (DESIGN.md section 2.3).

Written from the property statements with numpy/scipy primitives that pygyro does not use for
the same purpose: de Boor's algorithm on control points and scipy.interpolate.BSpline for spline
values (pygyro sums basis functions, NURBS-book A2.2), the definitional Cox-de Boor recursion
(also in exact rationals) for basis functions, Gauss-Legendre quadrature for integrals,
Vandermonde solves in exact rationals for finite-difference weights, product formula for Lagrange
weights.
"""
from fractions import Fraction

import numpy as np
from scipy.interpolate import BSpline

EPS = np.finfo(float).eps

# ---------------------------------------------------------------------------------------------
# knot vectors "the path really uses"


def knots_of(basis):
    """Knot vector (numpy) of the piecewise polynomial a pygyro BSplines object evaluates.
    General path: basis.knots.  Uniform-cubic fast path: the UNCLAMPED uniform sequence
    xmin + dx*(i-3), i = 0..ncells+6 (cardinal B-splines sticking out of the domain)."""
    if basis.cubic_uniform:
        xmin, xmax, dx, fn = [float(v) for v in basis.knots]
        n = int(fn)
        return xmin + dx * (np.arange(n + 7) - 3.0)
    return np.asarray(basis.knots, dtype=float)


def domain_of(T, p):
    return float(T[p]), float(T[len(T) - p - 1])


# ---------------------------------------------------------------------------------------------
# de Boor evaluation (control-point form)


def _find_interval(T, p, x):
    """k with T[k] <= x < T[k+1], p <= k <= len(T)-p-2; right end point belongs to the last interval"""
    n = len(T) - p - 1
    k = int(np.searchsorted(T, x, side="right")) - 1
    if k > n - 1:
        k = n - 1
    if k < p:
        k = p
    # skip empty intervals on the right end (clamped knots)
    while k > p and T[k] == T[k + 1]:
        k -= 1
    return k


def deboor(T, c, p, x):
    """value at scalar x of sum_j c_j B_{j,p}(x;T) by de Boor's algorithm"""
    k = _find_interval(T, p, x)
    d = [c[j + k - p] for j in range(p + 1)]
    for r in range(1, p + 1):
        for j in range(p, r - 1, -1):
            den = T[j + 1 + k - r] - T[j + k - p]
            a = (x - T[j + k - p]) / den
            d[j] = (1.0 - a) * d[j - 1] + a * d[j]
    return d[p]


def deriv_spline(T, c, p):
    """(T', c', p-1): the derivative of the spline (T,c,p)"""
    c = np.asarray(c)
    n = len(T) - p - 1
    dc = np.zeros(n - 1, dtype=c.dtype)
    for j in range(n - 1):
        den = T[j + p + 1] - T[j + 1]
        dc[j] = p * (c[j + 1] - c[j]) / den if den > 0 else 0.0
    return np.asarray(T[1:-1]), dc, p - 1


def spline_eval(T, c, p, x, der=0):
    """reference value (der=0) or first derivative (der=1) at scalar or array x, closed domain"""
    T = np.asarray(T, dtype=float)
    c = np.asarray(c)
    n = len(T) - p - 1
    c = c[:n]
    if der == 1:
        if p == 0:
            return np.zeros_like(np.asarray(x, dtype=float))
        T, c, p = deriv_spline(T, c, p)
    elif der != 0:
        raise ValueError(der)
    if np.ndim(x) == 0:
        return deboor(T, c, p, float(x))
    return np.array([deboor(T, c, p, float(xi)) for xi in np.ravel(x)]).reshape(np.shape(x))


def spline_eval_scipy(T, c, p, x, der=0):
    T = np.asarray(T, dtype=float)
    n = len(T) - p - 1
    b = BSpline(T, np.asarray(c)[:n], p, extrapolate=False)
    return b(x, nu=der)


def spline2d_eval(T1, p1, T2, p2, C, x1, x2, der1=0, der2=0):
    """tensor-product reference: matrix of values at (x1_i, x2_j)"""
    C = np.asarray(C)
    n1 = len(T1) - p1 - 1
    n2 = len(T2) - p2 - 1
    C = C[:n1, :n2]
    x1 = np.atleast_1d(np.asarray(x1, dtype=float))
    x2 = np.atleast_1d(np.asarray(x2, dtype=float))
    # contract second index first: for each row i of C evaluate the 1-D spline in x2
    A = np.array([spline_eval(T2, C[i, :], p2, x2, der2) for i in range(n1)])       # (n1, len(x2))
    return np.array([spline_eval(T1, A[:, j], p1, x1, der1) for j in range(len(x2))]).T  # (len(x1), len(x2))


# ---------------------------------------------------------------------------------------------
# definitional Cox-de Boor basis functions


def basis_all(T, p, x, exact=False):
    """values of ALL basis functions B_{j,p}(x;T), j=0..len(T)-p-2, by the Cox-de Boor recursion
    from its definition; the right end of the domain belongs to the last non-empty interval."""
    if exact:
        T = [Fraction(t) for t in T]
        x = Fraction(x)
        zero, one = Fraction(0), Fraction(1)
    else:
        T = [float(t) for t in T]
        x = float(x)
        zero, one = 0.0, 1.0
    m = len(T)
    b_dom = T[m - p - 1]
    a_dom = T[p]
    # pygyro rounds its interpolation points to 15 decimals, which can put an end point a few ulp
    # outside the domain; such points are evaluated at the end point (as pygyro's span search does)
    if not exact:
        slack = 1e-14 * max(1.0, abs(a_dom), abs(b_dom))
        if a_dom - slack <= x < a_dom:
            x = a_dom
        elif b_dom < x <= b_dom + slack:
            x = b_dom
    # degree 0
    B = [zero] * (m - 1)
    if x == b_dom:
        k = m - p - 2
        while k > 0 and T[k] == T[k + 1]:
            k -= 1
        B[k] = one
    else:
        for j in range(m - 1):
            if T[j] <= x < T[j + 1]:
                B[j] = one
    for q in range(1, p + 1):
        Bn = [zero] * (m - 1 - q)
        for j in range(m - 1 - q):
            v = zero
            d1 = T[j + q] - T[j]
            if d1 > 0:
                v += (x - T[j]) / d1 * B[j]
            d2 = T[j + q + 1] - T[j + 1]
            if d2 > 0:
                v += (T[j + q + 1] - x) / d2 * B[j + 1]
            Bn[j] = v
        B = Bn
    return B


def collocation(T, p, xs, periodic_nb=None):
    """dense collocation matrix B_j(x_i); with periodic_nb the columns j >= nb are folded onto j-nb"""
    M = np.array([basis_all(T, p, x) for x in xs], dtype=float)
    if periodic_nb is not None:
        nb = periodic_nb
        F = M[:, :nb].copy()
        F[:, :M.shape[1] - nb] += M[:, nb:]
        return F
    return M


# ---------------------------------------------------------------------------------------------
# quadrature


def gauss_legendre(breaks, npts):
    """nodes and weights of the composite Gauss-Legendre rule with npts points per cell"""
    xg, wg = np.polynomial.legendre.leggauss(npts)
    breaks = np.asarray(breaks, dtype=float)
    a = breaks[:-1][:, None]
    b = breaks[1:][:, None]
    x = 0.5 * (a + b) + 0.5 * (b - a) * xg[None, :]
    w = 0.5 * (b - a) * wg[None, :]
    return x.ravel(), w.ravel()


def spline_integral(T, c, p, breaks):
    """exact integral over [breaks[0], breaks[-1]] of the spline (T,c,p) (p+1 Gauss points per cell)"""
    x, w = gauss_legendre(breaks, p // 2 + 2)
    return float(np.dot(w, np.real(spline_eval(T, c, p, x)))) if not np.iscomplexobj(c) else complex(np.dot(w, spline_eval(T, c, p, x)))


# ---------------------------------------------------------------------------------------------
# finite differences and Lagrange


def fd_weights(offsets, order=1):
    """exact-rational weights w_k with sum_k w_k f(x0+k h) = h^order f^(order)(x0) + O(h^n)"""
    offs = [Fraction(o) for o in offsets]
    n = len(offs)
    A = [[o ** i for o in offs] for i in range(n)]
    rhs = [Fraction(0)] * n
    f = 1
    for i in range(1, order + 1):
        f *= i
    rhs[order] = Fraction(f)
    # Gaussian elimination in rationals
    M = [row[:] + [rhs[i]] for i, row in enumerate(A)]
    for col in range(n):
        piv = next(r for r in range(col, n) if M[r][col] != 0)
        M[col], M[piv] = M[piv], M[col]
        pv = M[col][col]
        M[col] = [v / pv for v in M[col]]
        for r in range(n):
            if r != col and M[r][col] != 0:
                fct = M[r][col]
                M[r] = [a - fct * b for a, b in zip(M[r], M[col])]
    return [float(M[i][n]) for i in range(n)]


def lagrange_weights(nodes, x):
    """Lagrange basis values l_k(x) on the given nodes (product formula)"""
    nodes = np.asarray(nodes, dtype=float)
    w = np.ones(len(nodes))
    for k in range(len(nodes)):
        for j in range(len(nodes)):
            if j != k:
                w[k] *= (x - nodes[j]) / (nodes[k] - nodes[j])
    return w


# ---------------------------------------------------------------------------------------------
# interpolation (reference): dense collocation solve


def interpolate(T, p, xs, u, periodic_nb=None):
    """coefficients (length len(T)-p-1, wrapped when periodic) of the spline taking u at xs"""
    M = collocation(T, p, xs, periodic_nb)
    c = np.linalg.solve(M, np.asarray(u))
    if periodic_nb is not None:
        n = len(T) - p - 1
        full = np.zeros(n, dtype=c.dtype)
        full[:periodic_nb] = c
        full[periodic_nb:] = c[:n - periodic_nb]
        return full, np.linalg.cond(M)
    return c, np.linalg.cond(M)


def basis_all_der(T, p, x):
    """first derivatives of all basis functions B_{j,p} at x (difference formula of degree-lowered splines)"""
    T = [float(t) for t in T]
    n = len(T) - p - 1
    if p == 0:
        return [0.0] * n
    low = basis_all(T, p - 1, x)        # n+1 functions of degree p-1 on the same knots
    out = []
    for j in range(n):
        v = 0.0
        d1 = T[j + p] - T[j]
        if d1 > 0:
            v += p * low[j] / d1
        d2 = T[j + p + 1] - T[j + 1]
        if d2 > 0:
            v -= p * low[j + 1] / d2
        out.append(v)
    return out


def clamped_knots(breaks, p):
    breaks = [float(b) for b in breaks]
    return np.array([breaks[0]] * p + breaks + [breaks[-1]] * p)


def galerkin_radial(breaks, p, nquad, A, Bf, Cf, Df, Ef, m2, l_neumann, u_neumann):
    """Dense Galerkin operator of  A phi'' + B phi' + C phi - m^2 D phi = E rho  in cylindrical measure
    on the clamped spline space (breaks, p), Gauss-Legendre with nquad points per cell:
        K[i,j] = int [ -A (phi_j' phi_i' r + phi_j' phi_i) + B phi_j' phi_i r + C phi_j phi_i r - m2 D phi_j phi_i r ]
        Mass[i,j] = int E phi_j phi_i r
    Returns (K_restricted, Mass_restricted_rows, index array of kept unknowns, T)."""
    T = clamped_knots(breaks, p)
    n = len(T) - p - 1
    x, w = gauss_legendre(breaks, nquad)
    V = np.array([basis_all(T, p, xi) for xi in x])          # (nq, n)
    D1 = np.array([basis_all_der(T, p, xi) for xi in x])
    a = np.array([A(xi) for xi in x], dtype=float)
    b = np.array([Bf(xi) for xi in x], dtype=float)
    c = np.array([Cf(xi) for xi in x], dtype=float)
    d = np.array([Df(xi) for xi in x], dtype=float)
    e = np.array([Ef(xi) for xi in x], dtype=float)
    K = np.zeros((n, n))
    K += np.einsum("q,qj,qi->ij", w * (-a) * x, D1, D1)
    K += np.einsum("q,qj,qi->ij", w * (-a), D1, V)
    K += np.einsum("q,qj,qi->ij", w * b * x, D1, V)
    K += np.einsum("q,qj,qi->ij", w * c * x, V, V)
    K -= m2 * np.einsum("q,qj,qi->ij", w * d * x, V, V)
    Mass = np.einsum("q,qj,qi->ij", w * e * x, V, V)
    keep = np.arange(0 if l_neumann else 1, n - (0 if u_neumann else 1))
    return K[np.ix_(keep, keep)], Mass[keep, :], keep, T


# ---------------------------------------------------------------------------------------------
# vectorised basis matrices (used where many scattered points must be evaluated: C12)


def basis_matrix(T, p, xs, der=0):
    """(len(xs), n) matrix of B_{j,p}^{(der)}(x_k), der in {0,1}; closed domain; vectorised Cox-de Boor"""
    T = np.asarray(T, dtype=float)
    xs = np.asarray(xs, dtype=float).ravel()
    m = len(T)
    n = m - p - 1
    a, b = T[p], T[m - p - 1]
    slack = 1e-14 * max(1.0, abs(a), abs(b))
    x = np.where((xs < a) & (xs >= a - slack), a, xs)
    x = np.where((x > b) & (x <= b + slack), b, x)

    def deg0():
        B = np.zeros((len(x), m - 1))
        for j in range(m - 1):
            if T[j] < T[j + 1]:
                B[:, j] = (x >= T[j]) & (x < T[j + 1])
        # right end point belongs to the last non-empty interval
        k = m - p - 2
        while k > 0 and T[k] == T[k + 1]:
            k -= 1
        B[x == b, :] = 0.0
        B[x == b, k] = 1.0
        return B

    def raise_deg(B, q):
        Bn = np.zeros((len(x), m - 1 - q))
        for j in range(m - 1 - q):
            d1 = T[j + q] - T[j]
            if d1 > 0:
                Bn[:, j] += (x - T[j]) / d1 * B[:, j]
            d2 = T[j + q + 1] - T[j + 1]
            if d2 > 0:
                Bn[:, j] += (T[j + q + 1] - x) / d2 * B[:, j + 1]
        return Bn
    B = deg0()
    top = p if der == 0 else p - 1
    for q in range(1, top + 1):
        B = raise_deg(B, q)
    if der == 0:
        return B[:, :n]
    if der == 1:
        if p == 0:
            return np.zeros((len(x), n))
        D = np.zeros((len(x), n))
        for j in range(n):
            d1 = T[j + p] - T[j]
            if d1 > 0:
                D[:, j] += p * B[:, j] / d1
            d2 = T[j + p + 1] - T[j + 1]
            if d2 > 0:
                D[:, j] -= p * B[:, j + 1] / d2
        return D
    raise ValueError(der)


class Tensor2D:
    """reference 2-D tensor spline (theta periodic x r clamped, or any): built from nodal values by
    dense collocation solves in both directions; evaluated at scattered points."""

    def __init__(self, basis1, pts1, basis2, pts2):
        self.T1, self.p1 = knots_of(basis1), basis1.degree
        self.T2, self.p2 = knots_of(basis2), basis2.degree
        self.n1 = len(self.T1) - self.p1 - 1
        self.n2 = len(self.T2) - self.p2 - 1
        self.nb1, self.nb2 = basis1.nbasis, basis2.nbasis
        self.per1, self.per2 = basis1.periodic, basis2.periodic
        M1 = collocation(self.T1, self.p1, pts1, periodic_nb=self.nb1 if self.per1 else None)
        M2 = collocation(self.T2, self.p2, pts2, periodic_nb=self.nb2 if self.per2 else None)
        self.kappa = float(np.linalg.cond(M1) * np.linalg.cond(M2))
        self.M1inv, self.M2inv = np.linalg.inv(M1), np.linalg.inv(M2)

    def coeffs(self, U):
        Cc = self.M1inv @ np.asarray(U) @ self.M2inv.T
        full = np.zeros((self.n1, self.n2), dtype=Cc.dtype)
        full[:self.nb1, :self.nb2] = Cc
        if self.per1:
            full[self.nb1:, :self.nb2] = Cc[:self.n1 - self.nb1, :]
        if self.per2:
            full[:, self.nb2:] = full[:, :self.n2 - self.nb2]
        return full

    def eval(self, Cfull, x1, x2, d1=0, d2=0):
        B1 = basis_matrix(self.T1, self.p1, x1, d1)
        B2 = basis_matrix(self.T2, self.p2, x2, d2)
        return np.einsum("ki,ij,kj->k", B1, Cfull, B2)
