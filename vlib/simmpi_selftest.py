"""Self-validation of the simulated MPI layer (DESIGN.md section 2.1).

Tiny rank programs with known outcomes: matched programs must pass with the
arithmetically expected data under several schedules; programs with a planted fault must
raise the corresponding SimError.  ``run()`` returns (n_ok, failures:list[str]).
"""
import numpy as np

from vlib import paths
paths.setup()

from mpi4py import MPI  # noqa: E402  (simulated)

SCHEDULES = [("identity", 0), ("reversed", 0), ("rotate", 0), ("random", 1), ("random", 2), ("random", 3)]


def _expect_ok(name, n, fn, failures, counter):
    for sched, seed in SCHEDULES:
        try:
            w = MPI.run_world(n, fn, schedule=sched, seed=seed, timeout=60)
        except Exception as e:  # noqa: BLE001
            failures.append("%s[%s,%d]: world failed %r" % (name, sched, seed, e))
            continue
        err = w.first_error()
        if err is not None:
            failures.append("%s[%s,%d]: rank %d raised %r\n%s" % (name, sched, seed, err[0], err[1], w.tracebacks[err[0]]))
        elif w.unmatched():
            failures.append("%s[%s,%d]: unmatched %r" % (name, sched, seed, w.unmatched()))
        else:
            counter[0] += 1


def _expect_err(name, n, fn, exc, failures, counter, every_rank=False):
    for sched, seed in SCHEDULES:
        w = MPI.run_world(n, fn, schedule=sched, seed=seed, timeout=60)
        errs = [e for e in w.errors if e is not None]
        good = [e for e in errs if isinstance(e, exc)]
        if not good:
            failures.append("%s[%s,%d]: expected %s, got %r" % (name, sched, seed, exc.__name__, w.errors))
        elif every_rank and len(good) != n:
            failures.append("%s[%s,%d]: expected %s on every rank, got %r" % (name, sched, seed, exc.__name__, w.errors))
        else:
            counter[0] += 1


def run():
    failures = []
    ok = [0]

    # ---- matched programs -------------------------------------------------------------------
    def p_basic(rank):
        comm = MPI.COMM_WORLD
        n = comm.Get_size()
        assert comm.Get_rank() == rank
        assert comm.bcast("x%d" % rank, root=n - 1) == "x%d" % (n - 1)
        g = comm.gather(rank * 2, root=0)
        assert (g == [2 * i for i in range(n)]) if rank == 0 else g is None
        assert comm.allgather(rank) == list(range(n))
        assert comm.allreduce(rank, op=MPI.SUM) == n * (n - 1) // 2
        r = comm.reduce(float(rank), op=MPI.MAX, root=n - 1)
        assert (r == n - 1) if rank == n - 1 else r is None
        assert comm.allreduce(rank < n, op=MPI.LAND) is True
        assert comm.allreduce(rank < 1, op=MPI.LAND) is (n == 1)
        comm.Barrier()
        # Alltoall: block q of rank p = 100*p+q
        s = np.array([100.0 * rank + q for q in range(n) for _ in range(2)])
        r_ = np.full(2 * n, -1.0)
        comm.Alltoall(s, r_)
        assert (r_ == np.array([100.0 * p + rank for p in range(n) for _ in range(2)])).all()
        # Allgather with explicit datatype on complex data viewed as DOUBLE
        c = np.array([rank + 1j * (rank + 0.5), -rank + 2j])
        out = np.zeros(2 * n, dtype=complex)
        comm.Allgather((c, MPI.DOUBLE), (out, MPI.DOUBLE))
        for p in range(n):
            assert out[2 * p] == p + 1j * (p + 0.5) and out[2 * p + 1] == -p + 2j
        # Reduce / Allreduce on arrays
        a = np.arange(3.0) + rank
        res = np.empty(3)
        comm.Reduce(a, res if rank == 0 else None, op=MPI.SUM, root=0)
        if rank == 0:
            assert np.allclose(res, n * np.arange(3.0) + n * (n - 1) / 2)
        res2 = np.empty(3)
        comm.Allreduce(a, res2, op=MPI.MIN)
        assert (res2 == np.arange(3.0)).all()
        # uneven Gatherv to root n-1
        mine = np.full(rank + 1, float(rank))
        root = n - 1
        if rank == root:
            sizes = [p + 1 for p in range(n)]
            starts = np.zeros(n, int)
            starts[1:] = np.cumsum(sizes[:-1])
            buf = np.full(sum(sizes), -9.0)
            comm.Gatherv(mine, (buf, sizes, starts, MPI.DOUBLE), root)
            exp = np.concatenate([np.full(p + 1, float(p)) for p in range(n)])
            assert (buf == exp).all()
        else:
            comm.Gatherv(mine, mine, root)
        return True

    for n in (1, 2, 3, 4):
        _expect_ok("basic%d" % n, n, p_basic, failures, ok)

    def p_cart(rank):
        comm = MPI.COMM_WORLD
        topo = comm.Create_cart([2, 3], periods=[False, False])
        co = topo.Get_coords(comm.Get_rank())
        assert co == [rank // 3, rank % 3]
        rowc = topo.Sub([True, False])   # varies along dim 0
        colc = topo.Sub([False, True])
        assert rowc.Get_size() == 2 and colc.Get_size() == 3
        assert rowc.Get_rank() == co[0] and colc.Get_rank() == co[1]
        assert rowc != colc and rowc == rowc and (rowc != None) and not (rowc == None)  # noqa: E711
        assert colc in [rowc, colc] and [rowc, colc].index(colc) == 1
        arr = np.array([rowc, None, colc], dtype=object)
        assert list(np.nonzero(arr != None)[0]) == [0, 2]  # noqa: E711
        assert rowc.allgather(rank) == [co[1], 3 + co[1]]
        assert colc.allgather(rank) == [3 * co[0] + k for k in range(3)]
        # nested Sub of Sub
        sub2 = colc.Sub([True])
        assert sub2.Get_size() == 3 and sub2.Get_rank() == co[1]
        sub0 = colc.Sub([False])
        assert sub0.Get_size() == 1
        # Split: odd/even with reversed key
        sp = comm.Split(rank % 2, -rank)
        members = sp.allgather(rank)
        assert members == sorted([r for r in range(6) if r % 2 == rank % 2], reverse=True)
        sp2 = comm.Split(rank == 5, comm.Get_rank())
        assert sp2.Get_size() == (1 if rank == 5 else 5)
        return True

    _expect_ok("cart6", 6, p_cart, failures, ok)

    def p_two_comms(rank):
        # collectives on different communicators interleaved differently per row: legal
        comm = MPI.COMM_WORLD
        topo = comm.Create_cart([2, 2])
        a = topo.Sub([True, False])
        b = topo.Sub([False, True])
        x = a.allreduce(rank)
        y = b.allreduce(rank)
        return (x, y)

    _expect_ok("twocomms", 4, p_two_comms, failures, ok)

    # vector collectives and attribute caching (added for programs that use them)
    def p_vector(rank):
        comm = MPI.COMM_WORLD
        n = comm.Get_size()
        counts = [i + 1 for i in range(n)]
        displs = [sum(counts[:i]) + i for i in range(n)]             # one cell of padding between the blocks
        send = np.full(rank + 1, float(rank))
        recv = np.full(sum(counts) + n, -1.0)
        comm.Allgatherv(send, [recv, counts, displs, MPI.DOUBLE])
        for i in range(n):
            assert np.all(recv[displs[i]:displs[i] + counts[i]] == i)
            assert recv[displs[i] + counts[i]] == -1.0 if displs[i] + counts[i] < recv.size else True
        # Alltoallv: rank p sends q+1 copies of 10p+q to rank q
        sc = [q + 1 for q in range(n)]
        sd = [sum(sc[:q]) for q in range(n)]
        sb = np.concatenate([np.full(q + 1, 10.0 * rank + q) for q in range(n)])
        rc = [rank + 1] * n
        rd = [(rank + 1) * p for p in range(n)]
        rb = np.zeros((rank + 1) * n)
        comm.Alltoallv([sb, sc, sd, MPI.DOUBLE], [rb, rc, rd, MPI.DOUBLE])
        for p_ in range(n):
            assert np.all(rb[rd[p_]:rd[p_] + rank + 1] == 10.0 * p_ + rank)
        # Scatterv from the last rank
        root = n - 1
        piece = np.zeros(rank + 1)
        if rank == root:
            whole = np.concatenate([np.full(q + 1, 7.0 + q) for q in range(n)])
            comm.Scatterv([whole, sc, sd, MPI.DOUBLE], piece, root=root)
        else:
            comm.Scatterv(None, piece, root=root)
        assert np.all(piece == 7.0 + rank)
        # attribute caching is per communicator and per process
        key = MPI.Comm.Create_keyval()
        assert comm.Get_attr(key) is None
        comm.Set_attr(key, ("mine", rank))
        d = comm.Dup()
        assert d.Get_attr(key) is None and comm.Get_attr(key) == ("mine", rank)
        comm.Delete_attr(key)
        assert comm.Get_attr(key) is None
    for n in (1, 2, 3, 4):
        _expect_ok("vector%d" % n, n, p_vector, failures, ok)

    def p_vector_bad_counts(rank):
        comm = MPI.COMM_WORLD
        n = comm.Get_size()
        send = np.full(rank + 1, float(rank))
        counts = [i + 1 for i in range(n)]
        if rank == 0:
            counts[-1] += 1                                              # rank 0 expects one element more from the last rank
        recv = np.zeros(sum(counts))
        comm.Allgatherv(send, [recv, counts, None, MPI.DOUBLE])
    _expect_err("vector-bad-counts", 3, p_vector_bad_counts, MPI.CollectiveMismatch, failures, ok)

    def p_unsupported(rank):
        MPI.COMM_WORLD.Ibarrier()
    _expect_err("unsupported-call", 2, p_unsupported, MPI.SimUnsupported, failures, ok, every_rank=True)

    # ---- planted faults --------------------------------------------------------------------------
    def f_wrong_root(rank):
        MPI.COMM_WORLD.bcast(1, root=0 if rank != 1 else 1)

    _expect_err("wrong_root", 3, f_wrong_root, MPI.CollectiveMismatch, failures, ok, every_rank=True)

    def f_wrong_op(rank):
        MPI.COMM_WORLD.reduce(1.0, op=MPI.MIN if rank else MPI.MAX, root=0)

    _expect_err("wrong_op", 3, f_wrong_op, MPI.CollectiveMismatch, failures, ok, every_rank=True)

    def f_skipped(rank):
        c = MPI.COMM_WORLD
        c.Barrier()
        if rank != 2:
            c.allreduce(rank)
        # rank 2 exits early

    _expect_err("skipped", 3, f_skipped, MPI.Deadlock, failures, ok)

    def f_diff_coll(rank):
        c = MPI.COMM_WORLD
        if rank == 0:
            c.allreduce(1)
        else:
            c.allgather(1)

    _expect_err("diff_coll", 2, f_diff_coll, MPI.CollectiveMismatch, failures, ok, every_rank=True)

    def f_swapped(rank):
        a = MPI.COMM_WORLD
        b = a.Dup()
        if rank == 0:
            b.Barrier()
            a.Barrier()
        else:
            a.Barrier()
            b.Barrier()

    _expect_err("swapped_order", 2, f_swapped, MPI.Deadlock, failures, ok, every_rank=True)

    def f_bad_root(rank):
        MPI.COMM_WORLD.bcast(1, root=5)

    _expect_err("bad_root", 2, f_bad_root, MPI.Exception, failures, ok)

    def f_wrong_count(rank):
        c = MPI.COMM_WORLD
        s = np.zeros(4 if rank else 6)
        r = np.zeros(4 if rank else 6)
        c.Alltoall(s, r)

    _expect_err("wrong_count", 2, f_wrong_count, MPI.CollectiveMismatch, failures, ok, every_rank=True)

    def f_wrong_type(rank):
        c = MPI.COMM_WORLD
        s = np.zeros(4, dtype=float if rank else np.int64)
        r = np.zeros(4, dtype=float if rank else np.int64)
        c.Alltoall(s, r)

    _expect_err("wrong_type", 2, f_wrong_type, MPI.CollectiveMismatch, failures, ok, every_rank=True)

    def f_gatherv_count(rank):
        c = MPI.COMM_WORLD
        mine = np.zeros(2)
        if rank == 0:
            buf = np.zeros(6)
            c.Gatherv(mine, (buf, [2, 3, 1], [0, 2, 5], MPI.DOUBLE), 0)
        else:
            c.Gatherv(mine, mine, 0)

    _expect_err("gatherv_count", 3, f_gatherv_count, MPI.CollectiveMismatch, failures, ok, every_rank=True)

    def f_alias(rank):
        c = MPI.COMM_WORLD
        s = np.zeros(4)
        c.Alltoall(s, s)

    _expect_err("alias", 2, f_alias, MPI.CollectiveMismatch, failures, ok)

    def f_not_multiple(rank):
        c = MPI.COMM_WORLD
        c.Alltoall(np.zeros(5), np.zeros(5))

    _expect_err("not_multiple", 2, f_not_multiple, ValueError, failures, ok)

    def f_dies(rank):
        c = MPI.COMM_WORLD
        if rank == 1:
            raise KeyError("boom")
        c.Barrier()

    _expect_err("rank_dies", 3, f_dies, MPI.Deadlock, failures, ok)

    # ---- scheduler produces distinct arrival orders, replay reproduces them -----------------------
    def p_sched(rank):
        c = MPI.COMM_WORLD
        tot = 0.0
        for i in range(4):
            tot += c.allreduce(0.1 * (rank + 1) * (i + 1), op=MPI.SUM)
        return tot

    sigs = set()
    for seed in range(12):
        w = MPI.run_world(3, p_sched, schedule="random", seed=seed, timeout=60)
        sigs.add(w.arrival_signature())
        w2 = MPI.run_world(3, p_sched, choices=[i for (_n, i) in w.choice_log], timeout=60)
        if w2.arrival_signature() != w.arrival_signature():
            failures.append("replay of choice list did not reproduce the arrival order (seed %d)" % seed)
        if [t for t in w.trace] != [t for t in w2.trace]:
            failures.append("replay trace differs (seed %d)" % seed)
    if len(sigs) < 4:
        failures.append("random scheduler produced only %d distinct arrival orders in 12 seeds" % len(sigs))
    else:
        ok[0] += 1

    return ok[0], failures


if __name__ == "__main__":
    n, fails = run()
    print("simmpi self-test: %d programs/schedules ok, %d failures" % (n, len(fails)))
    for f in fails:
        print("FAIL", f)
    raise SystemExit(1 if fails else 0)
