"""Argument REPRESENTATIONS: the same values handed to the code under test as a differently laid-out array.
An operator that works in place must leave its result in the caller's array whatever its memory layout is, and a
function must read the caller's values whatever their layout / numeric type is.  Round 7 of the seeded faults
(np.ascontiguousarray / ravel / asarray producing a private copy for one layout and a view for another) showed
that every array handed to the code under test had been a fresh C-contiguous float64 array."""
import numpy as np

KINDS_1D = ("c", "strided", "column", "window")
KINDS_2D = ("c", "f", "window", "strided", "slab")


def kinds(ndim):
    return KINDS_1D if ndim == 1 else KINDS_2D


def view_of(values, kind, fill=np.nan):
    """an array with the given values whose memory layout is `kind`; the surrounding memory (if any) holds `fill`"""
    v = np.asarray(values)
    if kind == "c":
        return np.array(v, copy=True, order="C")
    if v.ndim == 1:
        n = v.shape[0]
        if kind == "strided":
            big = np.full(2 * n + 1, fill, dtype=v.dtype)
            out = big[1::2][:n]
        elif kind == "column":
            big = np.full((n, 3), fill, dtype=v.dtype)
            out = big[:, 1]
        elif kind == "window":
            big = np.full(n + 5, fill, dtype=v.dtype)
            out = big[2:2 + n]
        else:
            raise ValueError(kind)
    elif v.ndim == 2:
        n0, n1 = v.shape
        if kind == "f":
            out = np.empty((n0, n1), dtype=v.dtype, order="F")
        elif kind == "window":
            big = np.full((n0 + 2, n1 + 3), fill, dtype=v.dtype)
            out = big[1:1 + n0, 2:2 + n1]
        elif kind == "strided":
            big = np.full((n0, 2 * n1 + 1), fill, dtype=v.dtype)
            out = big[:, 1::2][:, :n1]
        elif kind == "slab":
            big = np.full((n0, n1, 2), fill, dtype=v.dtype)      # one plane of a 3-D block stored with the plane index last
            out = big[:, :, 1]
        else:
            raise ValueError(kind)
    else:
        raise ValueError("ndim %d" % v.ndim)
    out[...] = v
    assert out.shape == v.shape
    return out


def pick(ndim, seed, share=3):
    """representation for a case: fresh C-contiguous for `share` cases out of share+1 ... no: rotates through all kinds"""
    ks = kinds(ndim)
    return ks[seed % len(ks)]
