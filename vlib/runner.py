"""Sharded case runner, three-valued verdicts, evidence and known-findings handling.

A check module (``checks/cXX.py``) provides

    ID, LEVEL, RULE, ASSUMPTIONS                      constants
    gen_cases(tier, seed) -> list[dict]               JSON-serialisable cases
    run_case(case) -> dict                            see ``result()`` below
    finalize(tier, seed, cases, results) -> list[dict]   (optional) cross-case verdicts
    prepare(tier, seed) -> dict | None                (optional) one-time set-up in the parent
                                                      (returned dict is exported to workers
                                                      as environment variables)
    cleanup(ctx)                                      (optional)
    REQUIRED_EVENTS = {"Alltoall": 1, ...}            (optional) zero => inconclusive
    EXHAUSTIVE = {"quick": bool, "thorough": bool}    (optional)

Workers are plain subprocesses (never multiprocessing.Pool) fed one case at a time.
"""
import collections
import json
import os
import subprocess
import sys
import threading
import time
import traceback

from vlib import paths

VERIF = paths.VERIF
EVID = os.environ.get("VERIF_EVIDENCE_DIR") or os.path.join(VERIF, "evidence")
REPLAY = os.path.join(EVID, "replay")
KNOWN = os.path.join(VERIF, "known_findings.json")

HELD, VIOL, SKIP, INCO = "held", "violation", "skipped", "inconclusive"


def result(status, cls=(), events=None, n_eval=1, key=None, what=None, witness=None, sched=None, extra=None):
    """Build a case result.
    status   held | violation | skipped | inconclusive
    cls      class signature(s) (str or list of str) observed by the deciding monitor
    events   {kind: count} observed by the monitors in this case
    n_eval   number of elementary evaluations inside this case (batch cases)
    key      mechanism key of a violation (classifier over case parameters)
    what     one-line description; witness: JSON-serialisable details
    sched    hashable description(s) of the arrival-order sequence(s) seen (for schedules_distinct)
    """
    if isinstance(cls, str):
        cls = [cls]
    r = {"status": status, "cls": list(cls), "events": dict(events or {}), "n_eval": int(n_eval)}
    if key is not None:
        r["key"] = key
    if what is not None:
        r["what"] = str(what)[:2000]
    if witness is not None:
        r["witness"] = witness
    if sched is not None:
        r["sched"] = sched if isinstance(sched, list) else [sched]
    if extra:
        r["extra"] = extra
    return r


def seed_from_env():
    try:
        return int(os.environ.get("VERIF_SEED", "0"))
    except ValueError:
        return 0


def load_known(prop):
    if not os.path.exists(KNOWN):
        return {}
    with open(KNOWN) as f:
        data = json.load(f)
    out = {}
    for e in data.get("findings", []):
        if e.get("property") == prop and e.get("status") == "open":
            out[e["key"]] = e
    return out


def classify_exception(exc, tb_text=None):
    """Was the exception raised by code under test (a frame under REPO)?  -> (bool, where)"""
    tb = exc.__traceback__
    where = None
    while tb is not None:
        fn = os.path.abspath(tb.tb_frame.f_code.co_filename)
        if fn.startswith(paths.REPO + os.sep):
            where = "%s:%s" % (os.path.relpath(fn, paths.REPO), tb.tb_frame.f_code.co_name)
        tb = tb.tb_next
    return (where is not None), where


# ---------------------------------------------------------------------------------------------
# worker side


def worker_main(modname):
    paths.setup()
    import importlib
    mod = importlib.import_module("checks." + modname)
    out = sys.stdout
    # keep stray prints of the code under test away from the protocol stream
    proto = os.fdopen(os.dup(1), "w")
    os.dup2(2, 1)
    sys.stdout = sys.stderr
    for line in sys.stdin:
        line = line.strip()
        if not line:
            continue
        case = json.loads(line)
        t0 = time.time()
        try:
            res = mod.run_case(case)
        except BaseException as e:  # noqa: BLE001
            ours, where = classify_exception(e)
            tbs = traceback.format_exc()
            if ours:
                res = result(VIOL, cls=["exception"], key="exception:%s@%s" % (type(e).__name__, where),
                             what="%s: %s (raised in %s)" % (type(e).__name__, e, where),
                             witness={"traceback": tbs[-3000:]})
            else:
                res = result(INCO, what="harness error: %s: %s" % (type(e).__name__, e),
                             witness={"traceback": tbs[-3000:]})
        # a run that stopped because the program used a part of the MPI interface the simulation does not model carries no
        # verdict: never a violation
        if isinstance(res, dict) and res.get("status") == VIOL and "simulated MPI does not implement" in (str(res.get("what", "")) + str(res.get("key", ""))):
            res = result(INCO, cls=res.get("cls", []), events=res.get("events"), what="not judged: " + str(res.get("what"))[:600], witness=res.get("witness"))
        res["wall"] = round(time.time() - t0, 4)
        proto.write(json.dumps(res, default=_jsonable) + "\n")
        proto.flush()
    del out


def _jsonable(o):
    try:
        import numpy as np
        if isinstance(o, np.integer):
            return int(o)
        if isinstance(o, np.floating):
            return float(o)
        if isinstance(o, np.bool_):
            return bool(o)
        if isinstance(o, np.ndarray):
            return o.tolist()
        if isinstance(o, complex):
            return [o.real, o.imag]
    except Exception:  # noqa: BLE001
        pass
    return repr(o)


# ---------------------------------------------------------------------------------------------
# parent side


class _Worker:
    def __init__(self, modname, env):
        self.modname = modname
        self.env = env
        self.proc = None

    def start(self):
        self.proc = subprocess.Popen(
            [sys.executable, "-c", "from vlib.runner import worker_main; worker_main(%r)" % self.modname],
            stdin=subprocess.PIPE, stdout=subprocess.PIPE, stderr=self.errf, cwd=VERIF, env=self.env,
            text=True, bufsize=1)

    def stop(self):
        if self.proc is not None:
            try:
                self.proc.stdin.close()
            except Exception:  # noqa: BLE001
                pass
            try:
                self.proc.wait(10)
            except Exception:  # noqa: BLE001
                self.proc.kill()
            self.proc = None


def run_cases(modname, cases, default_timeout, nworkers=None, extra_env=None, log_dir=None):
    """Run all cases, return list of results aligned with ``cases``."""
    n = len(cases)
    results = [None] * n
    if n == 0:
        return results
    ncpu = os.cpu_count() or 4
    nworkers = max(1, min(nworkers or ncpu, ncpu, n))
    env = dict(os.environ)
    env.setdefault("PYTHONHASHSEED", "0")
    env["OMP_NUM_THREADS"] = "1"
    env["OPENBLAS_NUM_THREADS"] = "1"
    env["MKL_NUM_THREADS"] = "1"
    env["PYTHONDONTWRITEBYTECODE"] = "1"
    env["PYTHONWARNINGS"] = env.get("PYTHONWARNINGS", "ignore")
    if extra_env:
        env.update({k: str(v) for k, v in extra_env.items()})
    # heaviest first when the case says so
    order = sorted(range(n), key=lambda i: -float(cases[i].get("cost", 1)))
    queue = collections.deque(order)
    lock = threading.Lock()
    log_dir = log_dir or os.path.join(EVID, "logs")
    os.makedirs(log_dir, exist_ok=True)

    def serve(widx):
        w = _Worker(modname, env)
        w.errf = open(os.path.join(log_dir, "%s.worker%d.err" % (modname, widx)), "w")
        try:
            while True:
                with lock:
                    if not queue:
                        break
                    i = queue.popleft()
                if w.proc is None or w.proc.poll() is not None:
                    w.start()
                case = cases[i]
                tmo = float(case.get("timeout", default_timeout))
                fired = [False]

                def kill():
                    fired[0] = True
                    try:
                        w.proc.kill()
                    except Exception:  # noqa: BLE001
                        pass
                timer = threading.Timer(tmo, kill)
                timer.start()
                line = ""
                try:
                    w.proc.stdin.write(json.dumps(case, default=_jsonable) + "\n")
                    w.proc.stdin.flush()
                    line = w.proc.stdout.readline()
                except Exception:  # noqa: BLE001
                    line = ""
                finally:
                    timer.cancel()
                if line:
                    try:
                        results[i] = json.loads(line)
                        continue
                    except ValueError:
                        pass
                if fired[0]:
                    results[i] = result(INCO, what="watchdog: case exceeded %.0f s wall clock" % tmo)
                else:
                    rc = w.proc.poll()
                    results[i] = result(INCO, what="worker died (exit %r) while running the case" % (rc,))
                try:
                    w.proc.kill()
                except Exception:  # noqa: BLE001
                    pass
                w.proc = None
        finally:
            w.stop()
            w.errf.close()

    threads = [threading.Thread(target=serve, args=(k,), daemon=True) for k in range(nworkers)]
    for t in threads:
        t.start()
    for t in threads:
        t.join()
    return results


def main(mod, tier, replay=None, nworkers=None):
    """Run a check module; prints verdict lines; returns the exit code."""
    t0 = time.time()
    prop = mod.ID
    seed = seed_from_env()
    modname = mod.__name__.split(".")[-1]
    os.makedirs(REPLAY, exist_ok=True)
    known = load_known(prop)
    ctx = None
    extra_env = None
    try:
        if hasattr(mod, "prepare"):
            ctx = mod.prepare(tier, seed)
            if isinstance(ctx, dict):
                extra_env = ctx.get("env")
        if replay:
            with open(replay) as f:
                rp = json.load(f)
            cases = [rp["case"]]
        else:
            cases = list(mod.gen_cases(tier, seed))
        default_timeout = getattr(mod, "CASE_TIMEOUT", {"quick": 300, "thorough": 1800})[tier]
        results = run_cases(modname, cases, default_timeout, nworkers=nworkers, extra_env=extra_env)
        extra = []
        if hasattr(mod, "finalize") and not replay:
            extra = list(mod.finalize(tier, seed, cases, results) or [])
    finally:
        if ctx is not None and hasattr(mod, "cleanup"):
            try:
                mod.cleanup(ctx)
            except Exception:  # noqa: BLE001
                traceback.print_exc()

    # ---- aggregate ---------------------------------------------------------------------------
    events = collections.Counter()
    classes = collections.OrderedDict()
    scheds = set()
    n_eval = 0
    counts = collections.Counter()
    new_viol = []      # (case, res)
    known_hit = collections.Counter()
    incon = []
    allres = list(zip(cases, results)) + [(r.get("case", {"kind": "finalize"}), r) for r in extra]
    for case, res in allres:
        st = res["status"]
        counts[st] += 1
        n_eval += res.get("n_eval", 1)
        for k, v in res.get("events", {}).items():
            events[k] += v
        for s in res.get("sched", []):
            scheds.add(json.dumps(s) if not isinstance(s, str) else s)
        if st in (HELD, VIOL):
            for c in res.get("cls", []):
                if c not in classes:
                    classes[c] = case
        if st == VIOL:
            key = res.get("key") or "unclassified"
            if key in known:
                known_hit[key] += 1
            else:
                new_viol.append((case, res))
        elif st == INCO:
            incon.append((case, res))

    try:
        with open(os.path.join(EVID, "logs", "%s.violations.jsonl" % prop), "w") as f:
            for case, res in allres:
                if res["status"] in (VIOL, INCO):
                    f.write(json.dumps({"case": case, "result": res}, default=_jsonable) + "\n")
    except OSError:
        pass

    required = getattr(mod, "REQUIRED_EVENTS", {})
    if isinstance(required, dict) and tier in required and isinstance(required[tier], dict):
        required = required[tier]
    def _observed(k):
        # MPI collectives count by family: "Alltoall" is also satisfied by Alltoallv / alltoall, "Allgather" by Allgatherv ...
        # (which member of a family the code under test uses is not part of any property)
        if k[:1].isupper() and k.lower() in ("alltoall", "allgather", "gather", "scatter", "reduce", "allreduce", "bcast"):
            return sum(v for name, v in events.items() if name.lower().rstrip("vw") == k.lower())
        return events.get(k, 0)
    missing = [k for k, v in required.items() if _observed(k) < v] if not replay else []

    # ---- verdict lines -----------------------------------------------------------------------
    exit_code = 0
    printed = set()
    nrep = 0
    for case, res in new_viol:
        key = res.get("key") or "unclassified"
        if key in printed:
            continue
        printed.add(key)
        nrep += 1
        if nrep > 12:
            break
        path = os.path.join(REPLAY, "%s-%d.json" % (prop, nrep))
        with open(path, "w") as f:
            json.dump({"property": prop, "tier": tier, "seed": seed, "case": case, "result": res},
                      f, indent=1, default=_jsonable)
        print("VIOLATION property=%s replay=%s" % (prop, path))
        print("  key=%s :: %s" % (key, res.get("what", "")))
        exit_code = 1
    for key, e in known.items():
        print("KNOWN-FINDING: property=%s %s [key=%s; observed in %d case(s) of this run]"
              % (prop, e.get("what", ""), key, known_hit.get(key, 0)))
    if exit_code == 0 and (incon or missing):
        exit_code = 2
        for case, res in incon[:5]:
            print("INCONCLUSIVE property=%s case=%s :: %s" % (prop, json.dumps(case, default=_jsonable)[:300], res.get("what", "")))
        if missing:
            print("INCONCLUSIVE property=%s deciding monitor never reached: events %r have too few observations (%r)"
                  % (prop, missing, {k: events.get(k, 0) for k in missing}))

    # ---- evidence --------------------------------------------------------------------------------
    wall = time.time() - t0
    samples = []
    for c, case in list(classes.items())[:6]:
        samples.append({"class": c, "case": case})
    if not samples and cases:
        samples.append({"case": cases[0]})
    cov = {
        "evaluations": int(n_eval),
        "distinct_nontrivial": len(classes),
        "rule": mod.RULE,
        "samples": samples,
        "cases": len(cases),
        "events": dict(events),
        "classes": list(classes.keys())[:400],
        "status_counts": dict(counts),
        "skipped": counts.get(SKIP, 0),
        "inconclusive": counts.get(INCO, 0),
        "schedules_distinct": len(scheds),
        "known_findings_hit": dict(known_hit),
        "new_violation_keys": sorted(printed),
        "exhaustive": bool(getattr(mod, "EXHAUSTIVE", {}).get(tier, False)),
    }
    if hasattr(mod, "coverage_extra"):
        try:
            cov.update(mod.coverage_extra(tier, cases, results) or {})
        except Exception:  # noqa: BLE001
            traceback.print_exc()
    ev = {
        "property_id": prop, "tier": tier, "seed": seed, "level": mod.LEVEL, "coverage": cov,
        "assumptions": list(mod.ASSUMPTIONS), "wall_s": round(wall, 2),
        "violations": len(new_viol),
        "verdict": {0: "held on everything explored", 1: "violated", 2: "inconclusive"}[exit_code],
        "repo": paths.REPO,
    }
    if not replay:
        with open(os.path.join(EVID, "%s.json" % prop), "w") as f:
            json.dump(ev, f, indent=1, default=_jsonable)
    print("%s tier=%s seed=%d: %d cases, %d evaluations, %d classes, events=%s, statuses=%s, known=%s, %.1fs -> %s"
          % (prop, tier, seed, len(cases), n_eval, len(classes), dict(events), dict(counts), dict(known_hit), wall,
             ev["verdict"]))
    return exit_code
