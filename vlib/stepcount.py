"""Logical progress bounds with sys.monitoring (Python 3.12): count LINE events of one code
object (i.e. loop iterations show up as repeated lines) without editing the repository, and
raise from the callback when a budget is exceeded, so that termination is judged in executed
lines, never in seconds."""
import sys


class BudgetExceeded(Exception):
    pass


class LineCounter:
    """with LineCounter(func, budget) as c: ...; c.count = LINE events inside func's code."""

    TOOL = 3  # a free tool id (0 debugger, 1 coverage, 2 profiler, 5 optimizer)

    def __init__(self, func, budget=None, lines=None):
        # decorated functions (functools.wraps / lru_cache ...) are followed to the function that holds the code
        try:
            import inspect
            func = inspect.unwrap(func)
        except Exception:  # noqa: BLE001
            pass
        self.code = getattr(func, "__code__", func)
        self.budget = budget
        self.count = 0
        self.per_line = {}
        self.lines = set(lines) if lines else None

    def _cb(self, code, line):
        if self.lines is not None and line not in self.lines:
            return
        self.count += 1
        self.per_line[line] = self.per_line.get(line, 0) + 1
        if self.budget is not None and self.count > self.budget:
            raise BudgetExceeded("more than %d line events in %s" % (self.budget, self.code.co_name))

    def __enter__(self):
        mon = sys.monitoring
        try:
            mon.use_tool_id(self.TOOL, "verif-stepcount")
        except ValueError:
            pass
        mon.register_callback(self.TOOL, mon.events.LINE, self._cb)
        mon.set_local_events(self.TOOL, self.code, mon.events.LINE)
        return self

    def __exit__(self, *exc):
        mon = sys.monitoring
        mon.set_local_events(self.TOOL, self.code, 0)
        mon.register_callback(self.TOOL, mon.events.LINE, None)
        try:
            mon.free_tool_id(self.TOOL)
        except ValueError:
            pass
        return False
