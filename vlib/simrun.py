"""Multi-rank physical set-up used by the grid-level checks (C05, C11, C15-C18): the same objects
the driver builds, but with a caller-chosen process grid and global fields scattered from /
assembled to plain numpy arrays in eta-order."""
from math import pi

import numpy as np

from vlib import layout_oracle as lo
from vlib import physgen as pg

PHYS = {'flux_surface': [0, 3, 1, 2], 'v_parallel': [0, 2, 1, 3], 'poloidal': [3, 2, 1, 0]}
LAYOUT_POISSON = {'v_parallel_2d': [0, 2, 1], 'mode_solve': [1, 2, 0]}
LAYOUT_VPAR = {'v_parallel_1d': [0, 2, 1]}
LAYOUT_POLOIDAL = {'poloidal': [2, 1, 0]}


def admissible(npts, nprocs):
    p0, p1 = nprocs
    return p0 <= min(npts[0], npts[3]) and p1 <= min(npts[2], npts[3])


class Sim:
    """Everything one rank needs (built inside the rank program)."""

    def __init__(self, comm, constants, nprocs, layout='v_parallel', save=True, with_phi=True):
        import pygyro.splines as spl
        from pygyro.model.layout import getLayoutHandler, LayoutSwapper
        from pygyro.model.grid import Grid
        c = constants
        self.c = c
        self.comm = comm
        self.nprocs = list(nprocs)
        self.eta, self.bs, _ = pg.make_space(spl, c.npts, c.splineDegrees, pg.std_domain(c))
        self.remapper = getLayoutHandler(comm, dict(PHYS), list(nprocs), self.eta)
        self.f = Grid(self.eta, self.bs, self.remapper, layout, comm, dtype=float, allocateSaveMemory=save)
        if with_phi:
            self.remapperPhi = LayoutSwapper(comm, [dict(LAYOUT_POISSON), dict(LAYOUT_VPAR), dict(LAYOUT_POLOIDAL)],
                                             [list(nprocs), nprocs[0], nprocs[1]], self.eta[:3], 'mode_solve')
            self.remapperRho = getLayoutHandler(comm, dict(LAYOUT_POISSON), list(nprocs), self.eta[:3])
            self.phi = Grid(self.eta[:3], self.bs[:3], self.remapperPhi, 'mode_solve', comm, dtype=np.complex128)
            self.rho = Grid(self.eta[:3], self.bs[:3], self.remapperRho, 'v_parallel_2d', comm, dtype=np.complex128)

    # -- scatter / gather ---------------------------------------------------------------------------
    @staticmethod
    def scatter(grid, G):
        L = grid.getLayout(grid.currentLayout)
        grid.getAllData()[:] = lo.expected_block(G, L)

    @staticmethod
    def block(grid):
        L = grid.getLayout(grid.currentLayout)
        return (tuple(L.dims_order), [int(x) for x in L.starts], [int(x) for x in L.ends], np.array(grid.getAllData(), copy=True))


def assemble(blocks, shape):
    """blocks from all ranks -> (global array in eta-order, coverage counts)"""
    return lo.assemble(blocks, shape)


def small_constants(npts, degrees=(3, 3, 3, 3), iota=0.0, seed=0, **kw):
    """a small, fast configuration with O(1) geometry (so that every operator does something)"""
    rs = np.random.RandomState(seed)
    R0 = kw.pop("R0", float(rs.uniform(2, 6)))
    base = dict(rMin=0.4, rMax=float(rs.uniform(4, 7)), zMin=0.0, zMax=2 * pi * R0, vMax=float(rs.uniform(3, 6)), R0=R0,
                npts=list(npts), splineDegrees=list(degrees), iotaVal=float(iota), eps=kw.pop("eps", 0.05), m=kw.pop("m", 2), n=kw.pop("n", 1),
                dt=kw.pop("dt", 1))
    base["vMin"] = -base["vMax"]
    if seed % 2:
        # profile parameters that coincide in the defaults (ion / electron widths and gradients, unit B0) made different from each other
        base.update(kN0=float(rs.uniform(0.03, 0.08)), kTi=float(rs.uniform(0.2, 0.35)), kTe=float(rs.uniform(0.2, 0.35)),
                    deltaRTi=float(rs.uniform(0.9, 2.5)), deltaRTe=float(rs.uniform(0.9, 2.5)), deltaRN0=float(rs.uniform(1.8, 4.0)),
                    CTi=float(rs.uniform(0.8, 1.3)), CTe=float(rs.uniform(0.8, 1.3)), B0=float(rs.choice([1.0, 2.5, 0.6])))
    if kw.pop("offsets", False) and seed % 4 >= 2:
        # away from the default geometry: a z domain that does not start at 0 and a velocity domain that is not symmetric
        z0 = float(rs.choice([-pi * R0, rs.uniform(-20, 20)]))
        base.update(zMin=z0, zMax=z0 + 2 * pi * R0, vMin=-base["vMax"] * float(rs.choice([0.45, 1.6])))
    base.update(kw)
    return pg.make_constants(**base)
