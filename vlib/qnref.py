"""Independent reference of the quasi-neutrality pipeline (C15): perturbed density -> numpy FFT along
theta -> per-mode dense Galerkin solve with the QN coefficient functions -> inverse FFT."""
import numpy as np

from vlib import physgen as pg
from vlib import refmath as rm


def density_functional(bs_v, eta_v, breaks_v):
    vref = pg.PeriodicSplineRef(bs_v, eta_v)
    gx, gw = rm.gauss_legendre(breaks_v, bs_v.degree // 2 + 2)
    return gw @ vref.basis_matrix(gx), vref.kappa


def perturbed_rho(F, c, eta, bs, breaks):
    w, kap = density_functional(bs[3], eta[3], breaks[3])
    FEQ = pg.f_eq(eta[0][:, None], eta[3][None, :], c)
    return np.tensordot(F - FEQ[:, None, None, :], w, axes=([3], [0])), kap


def solve_modes(rho_hat, c, eta, breaks_r, p_r, chi=0, adiabatic=True, qn_degree=7):
    """rho_hat: (nr, ntheta(modes), nz) complex -> phi_hat same shape; returns also max cond(K)*kappa_interp"""
    r = eta[0]
    nr, nth, nz = rho_hat.shape
    T = rm.clamped_knots(breaks_r, p_r)
    Mcol = rm.collocation(T, p_r, r)
    kap_i = np.linalg.cond(Mcol)
    rho_c = np.linalg.solve(Mcol.astype(complex), rho_hat.reshape(nr, -1)).reshape(nr, nth, nz)

    def n0dn(x):
        return -c.kN0 * (1 - np.tanh((x - c.rp) / c.deltaRN0) ** 2)

    def Bf(x):
        return -(1.0 / x + n0dn(x))

    def Cf(x):
        return 1.0 / pg.Te(x, c) if adiabatic else 0.0

    def Df(x):
        return -1.0 / (x * x)

    def Ef(x):
        return 1.0 / pg.n0(x, c)

    modes = np.fft.fftfreq(nth, 1 / nth)
    out = np.zeros_like(rho_hat)
    nq = qn_degree // 2 + 1
    condmax = 1.0
    for I, m in enumerate(modes):
        m2 = float(m * m)
        lneu = (m == 0)
        Cm = Cf
        if m == 0 and adiabatic and chi == 1:
            def Cm(x):
                return 0.0
        K, Mass, keep, _T = rm.galerkin_radial(breaks_r, p_r, nq, lambda x: -1.0, Bf, Cm, Df, Ef, m2, lneu, False)
        condmax = max(condmax, float(np.linalg.cond(K)))
        for z in range(nz):
            cvec = np.linalg.solve(K.astype(complex), Mass @ rho_c[:, I, z])
            out[:, I, z] = Mcol[:, keep] @ cvec
    return out, condmax * kap_i


def pipeline(F, c, eta, bs, breaks, chi=0, adiabatic=True, qn_degree=7):
    rho, kap_v = perturbed_rho(F, c, eta, bs, breaks)
    rho_hat = np.fft.fft(rho.astype(complex), axis=1)
    phi_hat, cond = solve_modes(rho_hat, c, eta, breaks[0], bs[0].degree, chi, adiabatic, qn_degree)
    phi = np.fft.ifft(phi_hat, axis=1)
    return {"rho": rho, "rho_hat": rho_hat, "phi_hat": phi_hat, "phi": phi, "cond": cond, "kappa_v": kap_v}
