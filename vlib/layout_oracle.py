"""Oracles shared by the layout checks (C01-C04, C06, C20): unique-id global arrays,
expected blocks, sentinel-guarded exact-size buffers, transpose-and-compare."""
import numpy as np

GUARD = 32


def unique_global(shape, dtype="float", salt=0):
    """Global array in eta-order whose every cell is distinct (so a wrong cell names its origin)."""
    n = int(np.prod(shape))
    ids = np.arange(n, dtype=np.int64) + salt * n
    if dtype in ("float32", "int32", "complex64"):
        # narrow payloads: ids stay exactly representable (n*(salt+1) < 2**24)
        G = {"float32": ids.astype(np.float32), "int32": ids.astype(np.int32),
             "complex64": (ids.astype(np.float32) + 1j * (n * (salt + 1) - ids).astype(np.float32)).astype(np.complex64)}[dtype]
        return G.reshape(tuple(shape))
    if dtype in ("float", float, np.float64):
        G = ids.astype(np.float64)
    elif dtype in ("complex", complex, np.complex128):
        G = ids.astype(np.float64) + 1j * (n * (salt + 1) - ids).astype(np.float64)
    elif dtype in ("int", int, np.int64):
        G = ids.copy()
    else:
        raise ValueError(dtype)
    return G.reshape(tuple(shape))


def np_dtype(dtype):
    return {"float": np.float64, "complex": np.complex128, "int": np.int64, "float32": np.float32, "int32": np.int32,
            "complex64": np.complex64}[dtype] if isinstance(dtype, str) else dtype


def sentinel(dtype):
    dt = np.dtype(np_dtype(dtype))
    if dt.kind == "f":
        return np.nan
    if dt.kind == "c":
        return complex(np.nan, np.nan)
    return -7


def expected_block(G, layout):
    """Block of the global array G (eta-order) that `layout` assigns to this rank, in layout order."""
    T = np.transpose(G, layout.dims_order)
    sl = tuple(slice(int(s), int(e)) for s, e in zip(layout.starts, layout.ends))
    return np.ascontiguousarray(T[sl])


def bits_equal(a, b):
    a = np.ascontiguousarray(a)
    b = np.ascontiguousarray(b)
    if a.shape != b.shape or a.dtype != b.dtype:
        return False
    return bool(np.array_equal(a.reshape(-1).view(np.uint8), b.reshape(-1).view(np.uint8)))


class Guarded:
    """An owning array of exactly n elements pre-filled with a sentinel.

    pygyro asserts that the arrays handed to transpose own their memory (``view.base is
    buffer``), so sentinel guard zones around a view are not admissible input; numpy itself
    makes an out-of-bounds write impossible (slices clip), so an insufficient advertised
    buffer size shows up as a shape error or as wrong data, both of which the callers detect."""

    def __init__(self, n, dtype):
        self.dt = np.dtype(np_dtype(dtype))
        self.n = int(n)
        self.sent = sentinel(self.dt)
        self.arr = np.empty(self.n, dtype=self.dt)
        self.arr[:] = self.sent

    def reset(self):
        self.arr[:] = self.sent

    def guards_ok(self):
        return self.arr.size == self.n


def describe_diff(got, exp, G):
    """first differing local index and what was found there (names the cell it came from)"""
    got = np.asarray(got)
    exp = np.asarray(exp)
    if got.shape != exp.shape:
        return "shape %r instead of %r" % (got.shape, exp.shape)
    neq = ~(np.ascontiguousarray(got).view(np.uint8).reshape(got.shape + (-1,)) ==
            np.ascontiguousarray(exp).view(np.uint8).reshape(exp.shape + (-1,))).all(axis=-1)
    idx = np.argwhere(neq)
    if len(idx) == 0:
        return None
    i = tuple(int(x) for x in idx[0])
    g = got[i]
    src = None
    try:
        if np.isfinite(np.real(g)):
            k = int(np.real(g)) % G.size
            src = tuple(int(x) for x in np.unravel_index(k, G.shape))
    except Exception:  # noqa: BLE001
        src = None
    return "%d of %d cells differ; first at local index %r: got %r expected %r (value of global cell %r)" % (
        len(idx), got.size, i, g, exp[i], src)


def transpose_and_check(h, G, a, b, with_buf, dtype="float", bufs=None, exact=True):
    """Fill layout `a` of manager `h` with the global field G, transpose to `b`, compare.
    Returns None or a message.  `bufs` (src,dst,buf Guarded) may be passed to re-use."""
    La = h.getLayout(a)
    Lb = h.getLayout(b)
    n = int(h.bufferSize)
    if n == 0:
        return None
    if bufs is None:
        bufs = (Guarded(n, dtype), Guarded(n, dtype), Guarded(n, dtype))
    src, dst, buf = bufs
    src.reset()
    dst.reset()
    buf.reset()
    if La.size > n or Lb.size > n:
        return "advertised buffer size %d smaller than a block (%d, %d)" % (n, La.size, Lb.size)
    blockA = expected_block(G, La)
    src.arr[:La.size] = blockA.reshape(-1)
    h.transpose(src.arr, dst.arr, a, b, buf.arr if with_buf else None)
    got = dst.arr[:Lb.size].reshape(Lb.shape)
    exp = expected_block(G, Lb)
    if not bits_equal(got, exp):
        return "destination block wrong: " + str(describe_diff(got, exp, G))
    if with_buf and not bits_equal(src.arr[:La.size].reshape(La.shape), blockA):
        return "source block modified although a spare buffer was supplied: " + str(
            describe_diff(src.arr[:La.size].reshape(La.shape), blockA, G))
    for nm, gd in (("source", src), ("dest", dst), ("spare", buf)):
        if not gd.guards_ok():
            return "write outside the advertised buffer size (%s array, %d elements)" % (nm, n)
    return None


def assemble(blocks, shape):
    """blocks: list of (dims_order, starts, ends, data) from all ranks -> global array in
    eta-order plus a coverage count array."""
    nd = len(shape)
    G = None
    cover = np.zeros(shape, dtype=np.int64)
    for dims_order, starts, ends, data in blocks:
        data = np.asarray(data)
        if G is None:
            G = np.zeros(shape, dtype=data.dtype)
        inv = [0] * nd
        for i, j in enumerate(dims_order):
            inv[j] = i
        sl = [None] * nd
        for i in range(nd):
            sl[dims_order[i]] = slice(int(starts[i]), int(ends[i]))
        blk = np.transpose(data.reshape([int(e - s) for s, e in zip(starts, ends)]), inv)
        G[tuple(sl)] = blk
        cover[tuple(sl)] += 1
    return G, cover


def c01_known_key(npts, nprocs, layouts):
    """Mechanism key of a listed C01 finding for this configuration (None: no listed finding)."""
    return None
