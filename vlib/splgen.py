"""Seeded generators of spline spaces, coefficient vectors and evaluation points (C07-C09, C19)."""
import numpy as np


def make_breaks(rng, ncells, kind, a=None, b=None):
    a = rng.uniform(-5, 5) if a is None else a
    L = (10 ** rng.uniform(-1, 1.3)) if b is None else (b - a)
    if kind == "uniform":
        return np.linspace(a, a + L, ncells + 1)
    if kind == "near-uniform":   # uniform up to a jitter far above rounding but below the usual "is close" thresholds
        x = np.linspace(a, a + L, ncells + 1)
        h = L / ncells
        for i in range(1, ncells):
            x[i] += h * rng.choice([-1, 1]) * 10 ** rng.uniform(-9, -5.3)
        return x
    if kind == "random":
        w = np.array([rng.uniform(0.2, 1.0) for _ in range(ncells)])
    elif kind == "graded":      # cell ratios up to 100
        w = np.array([10 ** rng.uniform(0, 2) for _ in range(ncells)])
    elif kind == "alternating":
        w = np.array([1.0 if i % 2 else rng.choice([0.01, 0.1, 0.5]) for i in range(ncells)])
    else:
        raise ValueError(kind)
    x = np.concatenate([[0.0], np.cumsum(w)])
    x = a + L * x / x[-1]
    x[-1] = a + L
    return x


def make_basis(spl, cfg, rng=None):
    """cfg: degree, ncells, periodic, kind (uniform|random|graded|alternating|near-uniform), fast (bool), breaks(optional list)"""
    import random
    rng = rng or random.Random(cfg.get("seed", 0))
    if cfg.get("breaks") is not None:
        breaks = np.array(cfg["breaks"], dtype=float)
    else:
        breaks = make_breaks(rng, cfg["ncells"], cfg["kind"], cfg.get("a"), cfg.get("b"))
    if not cfg["periodic"] and int(cfg.get("seed", 0)) % 5 == 3 and not cfg.get("fast", False) and cfg.get("kind") != "uniform":
        # break points that are exactly representable in single precision, handed over as a float32 array (clamped spaces only: no
        # arithmetic is done on them while the knots are formed, so the space is the same one as for the float64 array)
        breaks = breaks.astype(np.float32).astype(float)
        if np.all(np.diff(breaks) > 0):
            knots = spl.make_knots(breaks.astype(np.float32), int(cfg["degree"]), False)
        else:
            knots = spl.make_knots(breaks, int(cfg["degree"]), False)
    else:
        knots = spl.make_knots(breaks, int(cfg["degree"]), bool(cfg["periodic"]))
    uniform_flag = bool(cfg.get("fast", False)) or (cfg["kind"] == "uniform" and cfg.get("uniform_flag", False))
    # the flags and the degree as Python values or as their numpy counterparts (np.True_/np.False_, np.int64): a flag deduced from
    # an array comparison is a numpy bool, and `flag is True` is False for it
    k = int(cfg.get("seed", 0)) % 3
    per, deg = bool(cfg["periodic"]), int(cfg["degree"])
    if k == 1:
        per, uniform_flag = np.bool_(per), np.bool_(uniform_flag)
    elif k == 2:
        deg = np.int64(deg)
    basis = spl.BSplines(knots, deg, per, uniform_flag)
    return basis, breaks


def random_cfg(rng, max_degree=5, max_cells=40, allow_fast=True):
    degree = rng.randint(1, max_degree)
    periodic = rng.random() < 0.5
    fast = allow_fast and rng.random() < 0.3
    if fast:
        degree = 3
    lo = degree if periodic else 1          # make_knots admits periodic spaces with ncells >= degree
    if fast and not periodic:
        lo = 3       # (fewer cells are exercised by dedicated cases)
    ncells = rng.choice([lo, lo + 1, lo + 2, rng.randint(lo, max(lo, 12)), rng.randint(lo, max(lo, max_cells))])
    kind = "uniform" if fast else rng.choice(["uniform", "random", "graded", "alternating", "near-uniform"])
    return {"degree": degree, "ncells": ncells, "periodic": periodic, "kind": kind, "fast": fast,
            "uniform_flag": (kind == "uniform" and rng.random() < 0.5), "seed": rng.randrange(1 << 30)}


def coeff_vectors(rng, n, kinds=None):
    """list of (name, vector) of length n"""
    rs = np.random.RandomState(rng.randrange(1 << 31))
    out = [("ones", np.ones(n)), ("random", rs.standard_normal(n)),
           ("badly-scaled", rs.standard_normal(n) * 10.0 ** rs.uniform(-8, 8, n)),
           ("alternating", np.array([(-1.0) ** i for i in range(n)]) * (1 + rs.uniform(0, 1, n)))]
    j = rng.randrange(n)
    e = np.zeros(n)
    e[j] = 1.0
    out.append(("unit%d" % j, e))
    if kinds:
        out = [o for o in out if o[0].rstrip("0123456789") in kinds]
    return out


def wrap_periodic(c, ncells, degree):
    c = np.array(c, copy=True)
    c[ncells:ncells + degree] = c[:degree]
    return c


def eval_points(rng, breaks, greville=None, nrand=8):
    """list of (kind, x) inside the closed domain"""
    a, b = float(breaks[0]), float(breaks[-1])
    pts = [("end", a), ("end", b), ("ulp-inside", float(np.nextafter(a, b))), ("ulp-inside", float(np.nextafter(b, a)))]
    for x in breaks[1:-1]:
        x = float(x)
        pts.append(("knot", x))
        pts.append(("ulp-off-knot", float(np.nextafter(x, a))))
        pts.append(("ulp-off-knot", float(np.nextafter(x, b))))
    # a ladder of tiny distances on both sides of a few break points (a guard such as "offset > 1-1e-9 -> snap to the
    # knot" is invisible one ulp away from the knot and at generic points)
    inner = [float(x) for x in breaks[1:-1]]
    picks = inner if len(inner) <= 3 else rng.sample(inner, 3)
    for x in picks + [b]:
        h = min(x - a, b - x) if a < x < b else (b - a)
        h = min(h, float(np.min(np.diff(breaks))))
        for d in (1e-13, 1e-11, 3e-10, 1e-8, 1e-6):
            if x - d * h > a:
                pts.append(("near-knot", x - d * h))
            if x + d * h < b:
                pts.append(("near-knot", x + d * h))
    if greville is not None:
        for x in greville:
            if a <= x <= b:
                pts.append(("greville", float(x)))
    for _ in range(nrand):
        pts.append(("interior", rng.uniform(a, b)))
    return pts
