"""sys.path set-up shared by every check: simulated mpi4py first, then the repository
under test ($VERIF_REPO, default /repo), then /verif itself."""
import os
import sys

VERIF = os.path.dirname(os.path.dirname(os.path.abspath(__file__)))
REPO = os.path.abspath(os.environ.get("VERIF_REPO", "/repo"))
SIMMPI = os.path.join(VERIF, "vlib", "simmpi")
DEPS = os.path.join(VERIF, ".deps")


def setup(simmpi=True):
    want = []
    if simmpi:
        want.append(SIMMPI)
    want += [REPO, VERIF]
    for p in reversed(want):
        if p in sys.path:
            sys.path.remove(p)
        sys.path.insert(0, p)
    if os.path.isdir(DEPS) and DEPS not in sys.path:
        sys.path.append(DEPS)


def assert_repo(mod):
    f = os.path.abspath(getattr(mod, "__file__", "") or "")
    if not f.startswith(REPO + os.sep):
        raise RuntimeError("module %s imported from %s, expected under %s" % (mod.__name__, f, REPO))
