"""Simulated mpi4py (threads-as-ranks) used by the /verif runtime monitors.

This package shadows the real ``mpi4py`` (which cannot be imported on this image: no
libmpi).  See ``MPI.py`` for the implementation and /verif/DESIGN.md section 2.1.
"""
__version__ = "sim-4.1.2"
SIMULATED = True


def get_config():
    return {}


def get_include():
    return ""
