"""Simulated ``mpi4py.MPI``: threads as ranks, one rank running at a time.

Trusted base of the /verif monitors (DESIGN.md section 2.1).  What it provides on top of a
plain functional model of the collectives pygyro uses:

* Monitor 1 -- collective matcher: every rendezvous is validated when its last member
  arrives (same operation, same root / reduction operator, equal type signatures and
  counts where the MPI standard requires them, no aliasing of send and receive buffer).
  A disagreement raises ``CollectiveMismatch`` on every member.
* Monitor 2 -- deadlock detector: no runnable rank and not all ranks finished  =>
  ``Deadlock`` on every blocked rank (logical; no wall clock involved).
* Monitor 3 -- per-rank trace of (communicator id, sequence number, operation, signature).
* Scheduler: at every collective the baton goes to a runnable rank chosen by a policy
  (identity / reversed / rotate / seeded random / explicit choice list); reductions are
  combined in arrival order.
"""
import sys
import threading
import pickle
import random
import traceback
from collections import Counter

import numpy as np

# ---------------------------------------------------------------------------------------
# errors


class SimError(Exception):
    """Base class of everything the simulated layer raises as a *monitor verdict*."""


class CollectiveMismatch(SimError):
    pass


class Deadlock(SimError):
    pass


class SimUnsupported(SimError):
    """the program under test used a part of the MPI interface that this simulation does not model:
    the run carries no verdict (harnesses report it as inconclusive, never as a violation)"""


class WatchdogTimeout(SimError):
    pass


class Exception_(Exception):
    """Stand-in for mpi4py.MPI.Exception"""


Exception = Exception_  # noqa: A001  (mpi4py exposes MPI.Exception)

import builtins as _b  # noqa: E402

# ---------------------------------------------------------------------------------------
# datatypes and operators


class Datatype:
    def __init__(self, name, npdtype):
        self.name = name
        self.npdtype = np.dtype(npdtype)
        self.extent = self.npdtype.itemsize
        self.size = self.extent

    def Get_size(self):
        return self.extent

    def Get_extent(self):
        return (0, self.extent)

    def __repr__(self):
        return "MPI." + self.name


DOUBLE = Datatype("DOUBLE", np.float64)
FLOAT = Datatype("FLOAT", np.float32)
INT = Datatype("INT", np.int32)
LONG = Datatype("LONG", np.int64)
INT64_T = LONG
INT32_T = INT
BOOL = Datatype("BOOL", np.bool_)
C_BOOL = BOOL
BYTE = Datatype("BYTE", np.uint8)
CHAR = Datatype("CHAR", np.int8)
C_DOUBLE_COMPLEX = Datatype("C_DOUBLE_COMPLEX", np.complex128)
DOUBLE_COMPLEX = C_DOUBLE_COMPLEX
COMPLEX = Datatype("COMPLEX", np.complex64)

_BY_DTYPE = {
    np.dtype(np.float64): DOUBLE, np.dtype(np.float32): FLOAT,
    np.dtype(np.int32): INT, np.dtype(np.int64): LONG,
    np.dtype(np.bool_): BOOL, np.dtype(np.uint8): BYTE, np.dtype(np.int8): CHAR,
    np.dtype(np.complex128): C_DOUBLE_COMPLEX, np.dtype(np.complex64): COMPLEX,
}


class Op:
    def __init__(self, name, pyfunc, npfunc):
        self.name = name
        self._py = pyfunc
        self._np = npfunc

    def __call__(self, a, b):
        return self._py(a, b)

    def __repr__(self):
        return "MPI." + self.name


SUM = Op("SUM", lambda a, b: a + b, np.add)
PROD = Op("PROD", lambda a, b: a * b, np.multiply)
MIN = Op("MIN", lambda a, b: b if b < a else a, np.minimum)
MAX = Op("MAX", lambda a, b: b if b > a else a, np.maximum)
LAND = Op("LAND", lambda a, b: bool(a) and bool(b), np.logical_and)
LOR = Op("LOR", lambda a, b: bool(a) or bool(b), np.logical_or)

UNDEFINED = -32766
IN_PLACE = object()
ANY_SOURCE = -1
ANY_TAG = -1
PROC_NULL = -2

# ---------------------------------------------------------------------------------------
# world / scheduler

_tls = threading.local()


class _Ctx:
    __slots__ = ("world", "rank", "comm")

    def __init__(self, world, rank):
        self.world = world
        self.rank = rank
        self.comm = None


def _ctx():
    c = getattr(_tls, "ctx", None)
    if c is None:
        # a thread outside any World (e.g. the harness main thread): private serial world
        w = World(1)
        c = _Ctx(w, 0)
        c.comm = Intracomm(w._world_shared, 0, w)
        _tls.ctx = c
    return c


class _Shared:
    """State of one communicator shared by the handles of all its members."""

    def __init__(self, cid, members):
        self.cid = cid
        self.members = list(members)          # world ranks in communicator-rank order
        self.size = len(self.members)
        self.seq = [0] * self.size
        self.slots = {}
        self.cart_dims = None


class _Rec:
    __slots__ = ("entries", "results", "error")

    def __init__(self):
        self.entries = []
        self.results = None
        self.error = None


class World:
    """``World(n, schedule=..., seed=..., choices=...)`` then ``run(fn)``: fn(rank) on n ranks."""

    def __init__(self, size, schedule="identity", seed=0, choices=None):
        self.size = size
        self.schedule = schedule
        self.rng = random.Random(seed)
        self.choices = list(choices) if choices is not None else None
        self.cv = threading.Condition()
        self.state = ["ready"] * size
        self.current = None
        self.trace = [[] for _ in range(size)]
        self.arrival_log = []
        self.choice_log = []
        self.pending = [None] * size
        self.wait_for = [None] * size
        self.results = [None] * size
        self.errors = [None] * size
        self.tracebacks = [None] * size
        self.events = Counter()
        self.deadlocked = False
        self.killed = False
        self._step = 0
        self._world_shared = _Shared("W", range(size))
        self.comms_created = 1

    # -- scheduling (cv held) -------------------------------------------------------------
    def _pick_next(self):
        runnable = [r for r in range(self.size) if self.state[r] == "ready"]
        if not runnable:
            blocked = [r for r in range(self.size) if self.state[r] == "blocked"]
            if not blocked:
                self.current = None
                self.cv.notify_all()
                return
            self.deadlocked = True
            info = "Deadlock: states=%r waiting_on=%r" % (self.state, self.wait_for)
            for r in blocked:
                self.pending[r] = Deadlock(info)
                self.state[r] = "ready"
            runnable = blocked
        n = len(runnable)
        if n == 1:
            idx = 0
        else:
            pol = self.schedule
            if self.choices is not None:
                k = len(self.choice_log)
                idx = self.choices[k] if k < len(self.choices) else 0
                idx = min(idx, n - 1)
            elif pol == "identity":
                idx = 0
            elif pol == "reversed":
                idx = n - 1
            elif pol == "rotate":
                idx = self._step % n
            elif pol == "random":
                idx = self.rng.randrange(n)
            else:
                raise ValueError("unknown schedule %r" % (pol,))
            self.choice_log.append((n, idx))
        self._step += 1
        self.current = runnable[idx]
        self.cv.notify_all()

    def _wait_turn(self, wr):
        while self.current != wr:
            if self.killed:
                raise WatchdogTimeout("world killed by watchdog")
            self.cv.wait(1.0)
        p = self.pending[wr]
        if p is not None:
            self.pending[wr] = None
            raise p

    def _main(self, rank, fn, args):
        ctx = _Ctx(self, rank)
        ctx.comm = Intracomm(self._world_shared, rank, self)
        _tls.ctx = ctx
        try:
            with self.cv:
                self._wait_turn(rank)
            self.results[rank] = fn(rank, *args)
        except BaseException as e:  # noqa: BLE001 - recorded, classified by the harness
            self.errors[rank] = e
            self.tracebacks[rank] = traceback.format_exc()
        finally:
            with self.cv:
                self.state[rank] = "done"
                self.wait_for[rank] = None
                if not self.killed:
                    self._pick_next()
            _tls.ctx = None

    def run(self, fn, args=(), timeout=600.0):
        threads = [threading.Thread(target=self._main, args=(r, fn, args), daemon=True,
                                    name="simmpi-rank-%d" % r) for r in range(self.size)]
        for t in threads:
            t.start()
        with self.cv:
            self._pick_next()
        import time
        deadline = time.monotonic() + timeout
        for t in threads:
            t.join(max(0.0, deadline - time.monotonic()))
        if any(t.is_alive() for t in threads):
            with self.cv:
                self.killed = True
                self.cv.notify_all()
            raise WatchdogTimeout("simulated world did not finish within %.0f s (inconclusive)" % timeout)
        return self

    # -- summaries -----------------------------------------------------------------------
    def arrival_signature(self):
        return tuple(r for (_c, _s, r) in self.arrival_log)

    def unmatched(self):
        """rendezvous records left incomplete at the end (should be none if no error)."""
        out = []
        seen = set()

        def walk(sh):
            if id(sh) in seen:
                return
            seen.add(id(sh))
            for seq, rec in sh.slots.items():
                if rec.results is None and rec.error is None:
                    out.append((sh.cid, seq, [e[1] for e in rec.entries]))
        for sh in self._all_shared:
            walk(sh)
        return out

    @property
    def _all_shared(self):
        return getattr(self, "_shared_list", [self._world_shared])

    def _register(self, sh):
        if not hasattr(self, "_shared_list"):
            self._shared_list = [self._world_shared]
        self._shared_list.append(sh)
        self.comms_created += 1

    def first_error(self):
        """(rank, exception) of the first non-Deadlock error, else first Deadlock, else None"""
        for r, e in enumerate(self.errors):
            if e is not None and not isinstance(e, Deadlock):
                return r, e
        for r, e in enumerate(self.errors):
            if e is not None:
                return r, e
        return None


def run_world(n, fn, args=(), schedule="identity", seed=0, choices=None, timeout=600.0):
    w = World(n, schedule=schedule, seed=seed, choices=choices)
    return w.run(fn, args, timeout=timeout)


# ---------------------------------------------------------------------------------------
# buffers


class _Buf:
    __slots__ = ("u8", "datatype", "count", "counts", "displs", "arr")


def _callsite():
    f = sys._getframe(2)
    here = __file__
    while f is not None and f.f_code.co_filename == here:
        f = f.f_back
    if f is None:
        return ("?", 0, "?")
    return (f.f_code.co_filename, f.f_lineno, f.f_code.co_name)


def _parse_buf(spec, writable=False):
    """mpi4py buffer specification -> _Buf (flat uint8 view on the same memory)."""
    if spec is None:
        return None
    datatype = None
    count = None
    counts = None
    displs = None
    buf = spec
    if isinstance(spec, (tuple, list)):
        items = list(spec)
        buf = items[0]
        rest = items[1:]
        if rest and isinstance(rest[-1], Datatype):
            datatype = rest.pop()
        if len(rest) == 1:
            c = rest[0]
            if isinstance(c, (tuple, list)) and len(c) == 2 and not np.isscalar(c[0]):
                counts, displs = c
            elif np.isscalar(c) or c is None:
                count = c
            else:
                counts = c
        elif len(rest) == 2:
            counts, displs = rest
        elif len(rest) > 2:
            raise ValueError("message: cannot interpret buffer specification")
    if buf is IN_PLACE:
        raise NotImplementedError("simmpi: MPI.IN_PLACE is not modelled")
    if not isinstance(buf, np.ndarray):
        raise TypeError("simmpi: buffer must be a numpy array, got %r" % type(buf))
    if buf.flags.c_contiguous:
        flat = buf.reshape(-1)
    elif buf.flags.f_contiguous:
        flat = buf.T.reshape(-1)
    else:
        raise ValueError("ndarray is not contiguous")
    if writable and not buf.flags.writeable:
        raise ValueError("buffer is read-only")
    if datatype is None:
        datatype = _BY_DTYPE.get(buf.dtype)
        if datatype is None:
            raise KeyError("simmpi: cannot infer MPI datatype for dtype %r" % buf.dtype)
    b = _Buf()
    b.arr = buf
    b.u8 = flat.view(np.uint8)
    b.datatype = datatype
    nbytes = b.u8.size
    if nbytes % datatype.extent:
        raise ValueError("message: buffer length %d is not a multiple of datatype extent %d"
                         % (nbytes, datatype.extent))
    total = nbytes // datatype.extent
    if count is not None:
        if count > total:
            raise ValueError("message: count %d exceeds buffer length %d" % (count, total))
        total = int(count)
    b.count = total
    b.counts = None if counts is None else [int(c) for c in counts]
    b.displs = None if displs is None else [int(d) for d in displs]
    if b.counts is not None and b.displs is None:
        d = [0]
        for c in b.counts[:-1]:
            d.append(d[-1] + c)
        b.displs = d
    return b


def _blocks(total, size, what):
    if total % size:
        raise ValueError("message: cannot infer count, number of entries %d is not a multiple "
                         "of required blocks %d (%s)" % (total, size, what))
    return total // size


# ---------------------------------------------------------------------------------------
# communicators


class Comm:
    """Handle of one rank on one communicator."""

    def __init__(self, shared=None, rank=None, world=None):
        self._sh = shared
        self._rk = rank
        self._w = world

    # resolution (COMM_WORLD is a proxy) ----------------------------------------------------
    def _resolve(self):
        return self

    def __eq__(self, other):
        if not isinstance(other, Comm):
            return NotImplemented if other is not None else False
        a = self._resolve()
        b = other._resolve()
        return a._sh is b._sh

    def __ne__(self, other):
        r = self.__eq__(other)
        if r is NotImplemented:
            return True
        return not r

    def __hash__(self):
        return id(self._resolve()._sh)

    def __bool__(self):
        return self._resolve()._sh is not None

    def __repr__(self):
        h = self._resolve()
        if h._sh is None:
            return "<simmpi COMM_NULL>"
        return "<simmpi comm %s rank %d/%d>" % (h._sh.cid, h._rk, h._sh.size)

    # basic queries ---------------------------------------------------------------------------
    def Get_rank(self):
        return self._resolve()._rk

    def Get_size(self):
        return self._resolve()._sh.size

    rank = property(Get_rank)
    size = property(Get_size)

    @property
    def cid(self):
        return self._resolve()._sh.cid

    def Get_name(self):
        return self._resolve()._sh.cid

    def Free(self):
        pass

    def Abort(self, errorcode=0):
        raise SystemExit("MPI Abort %d" % errorcode)

    # the generic rendezvous ------------------------------------------------------------------
    def _coll(self, op, sig, payload, finish):
        """Deposit (op, sig, payload); when every member has arrived validate and run
        ``finish(entries)`` (entries = [(comm rank, payload)] in arrival order), which returns
        {comm rank: result}.  Returns this rank's result."""
        h = self._resolve()
        sh = h._sh
        if sh is None:
            raise Exception_("MPI_ERR_COMM: collective on COMM_NULL")
        w = h._w
        me = h._rk
        wr = sh.members[me]
        site = _callsite()
        root = sig.get("root")
        if root is not None and not (isinstance(root, (int, np.integer)) and 0 <= root < sh.size):
            raise Exception_("MPI_ERR_ROOT: invalid root %r on %s (size %d)" % (root, sh.cid, sh.size))
        if sh.size == 1:
            seq = sh.seq[0]
            sh.seq[0] += 1
            w.trace[wr].append((sh.cid, seq, op, sig))
            w.arrival_log.append((sh.cid, seq, wr))
            w.events[op] += 1
            return finish([(0, payload)])[0]
        with w.cv:
            seq = sh.seq[me]
            sh.seq[me] += 1
            rec = sh.slots.get(seq)
            if rec is None:
                rec = sh.slots[seq] = _Rec()
            rec.entries.append((me, op, sig, payload, site))
            w.trace[wr].append((sh.cid, seq, op, sig))
            w.arrival_log.append((sh.cid, seq, wr))
            if len(rec.entries) == sh.size:
                del sh.slots[seq]
                try:
                    ops = sorted(set(e[1] for e in rec.entries))
                    if len(ops) > 1:
                        raise CollectiveMismatch(
                            "different collectives at step %d of %s: %s" % (
                                seq, sh.cid,
                                "; ".join("rank %d: %s at %s:%d" % (e[0], e[1], e[4][0], e[4][1])
                                          for e in rec.entries)))
                    sigs = set(_sigkey(e[2]) for e in rec.entries)
                    if len(sigs) > 1:
                        raise CollectiveMismatch(
                            "%s at step %d of %s called with different root/op: %s" % (
                                op, seq, sh.cid,
                                "; ".join("rank %d: %r at %s:%d" % (e[0], e[2], e[4][0], e[4][1])
                                          for e in rec.entries)))
                    rec.results = finish([(e[0], e[3]) for e in rec.entries])
                    w.events[op] += 1
                except SimError as e:
                    rec.error = e
                except _b.Exception as e:  # error of the model while combining
                    rec.error = e
                for m in sh.members:
                    if w.state[m] == "blocked":
                        w.state[m] = "ready"
                        w.wait_for[m] = None
            else:
                w.state[wr] = "blocked"
                w.wait_for[wr] = (sh.cid, seq, op)
            w._pick_next()
            w._wait_turn(wr)
        if rec.error is not None:
            e = rec.error
            raise type(e)(*e.args)
        return rec.results[me]

    # object (pickle) collectives ---------------------------------------------------------------
    def Barrier(self):
        self._coll("Barrier", {}, None, lambda ent: {r: None for r, _ in ent})

    barrier = Barrier

    def bcast(self, obj=None, root=0):
        def fin(ent):
            data = dict(ent)[root]
            s = pickle.dumps(data)
            return {r: (data if r == root else pickle.loads(s)) for r, _ in ent}
        return self._coll("bcast", {"root": root}, obj, fin)

    def gather(self, sendobj, root=0):
        def fin(ent):
            d = dict(ent)
            lst = [pickle.loads(pickle.dumps(d[r])) for r in range(len(d))]
            return {r: (lst if r == root else None) for r in d}
        return self._coll("gather", {"root": root}, sendobj, fin)

    def allgather(self, sendobj):
        def fin(ent):
            d = dict(ent)
            return {r: [pickle.loads(pickle.dumps(d[q])) for q in range(len(d))] for r in d}
        return self._coll("allgather", {}, sendobj, fin)

    def scatter(self, sendobj=None, root=0):
        def fin(ent):
            d = dict(ent)
            lst = list(d[root])
            if len(lst) != len(d):
                raise ValueError("scatter: expecting %d items, got %d" % (len(d), len(lst)))
            return {r: pickle.loads(pickle.dumps(lst[r])) for r in d}
        return self._coll("scatter", {"root": root}, sendobj, fin)

    def reduce(self, sendobj, op=SUM, root=0):
        def fin(ent):
            acc = ent[0][1]
            for _r, v in ent[1:]:
                acc = op(acc, v)
            return {r: (acc if r == root else None) for r, _ in ent}
        return self._coll("reduce", {"root": root, "op": op.name}, sendobj, fin)

    def allreduce(self, sendobj, op=SUM):
        def fin(ent):
            acc = ent[0][1]
            for _r, v in ent[1:]:
                acc = op(acc, v)
            return {r: acc for r, _ in ent}
        return self._coll("allreduce", {"op": op.name}, sendobj, fin)

    # buffer collectives -------------------------------------------------------------------------
    def Bcast(self, buf, root=0):
        b = _parse_buf(buf, writable=True)

        def fin(ent):
            d = dict(ent)
            src = d[root]
            for r, x in d.items():
                _same_sig("Bcast", root, src.count, src.datatype, r, x.count, x.datatype)
                if r != root:
                    n = src.count * src.datatype.extent
                    x.u8[:n] = src.u8[:n]
            return {r: None for r in d}
        self._coll("Bcast", {"root": root}, b, fin)

    def Reduce(self, sendbuf, recvbuf, op=SUM, root=0):
        s = _parse_buf(sendbuf)
        me = self.Get_rank()
        r_ = _parse_buf(recvbuf, writable=True) if me == root else None

        def fin(ent):
            return _reduce_fin("Reduce", ent, op, root)
        self._coll("Reduce", {"root": root, "op": op.name}, (s, r_), fin)

    def Allreduce(self, sendbuf, recvbuf, op=SUM):
        s = _parse_buf(sendbuf)
        r_ = _parse_buf(recvbuf, writable=True)

        def fin(ent):
            return _reduce_fin("Allreduce", ent, op, None)
        self._coll("Allreduce", {"op": op.name}, (s, r_), fin)

    def Alltoall(self, sendbuf, recvbuf):
        size = self.Get_size()
        s = _parse_buf(sendbuf)
        r_ = _parse_buf(recvbuf, writable=True)
        sc = _blocks(s.count, size, "Alltoall send")
        rc = _blocks(r_.count, size, "Alltoall recv")
        if np.shares_memory(s.u8, r_.u8) and s.count and r_.count:
            raise CollectiveMismatch("Alltoall: send and receive buffers overlap (forbidden by MPI)")

        def fin(ent):
            d = dict(ent)
            for p, (sp, _rp, scp, _rcp) in d.items():
                for q, (_sq, rq, _scq, rcq) in d.items():
                    _same_sig("Alltoall", p, scp, sp.datatype, q, rcq, rq.datatype)
            for p, (sp, _rp, scp, _rcp) in d.items():
                nb = scp * sp.datatype.extent
                for q, (_sq, rq, _scq, _rcq) in d.items():
                    rq.u8[p * nb:(p + 1) * nb] = sp.u8[q * nb:(q + 1) * nb]
            return {r: None for r in d}
        self._coll("Alltoall", {"count": None}, (s, r_, sc, rc), fin)

    def Allgather(self, sendbuf, recvbuf):
        size = self.Get_size()
        s = _parse_buf(sendbuf)
        r_ = _parse_buf(recvbuf, writable=True)
        rc = _blocks(r_.count, size, "Allgather recv")
        if np.shares_memory(s.u8, r_.u8) and s.count and r_.count:
            raise CollectiveMismatch("Allgather: send and receive buffers overlap (forbidden by MPI)")

        def fin(ent):
            d = dict(ent)
            for p, (sp, _rp, _rcp) in d.items():
                for q, (_sq, rq, rcq) in d.items():
                    _same_sig("Allgather", p, sp.count, sp.datatype, q, rcq, rq.datatype)
            for p, (sp, _rp, _rcp) in d.items():
                nb = sp.count * sp.datatype.extent
                for q, (_sq, rq, _rcq) in d.items():
                    rq.u8[p * nb:(p + 1) * nb] = sp.u8[:nb]
            return {r: None for r in d}
        self._coll("Allgather", {}, (s, r_, rc), fin)

    def Gather(self, sendbuf, recvbuf, root=0):
        size = self.Get_size()
        me = self.Get_rank()
        s = _parse_buf(sendbuf)
        r_ = _parse_buf(recvbuf, writable=True) if me == root else None
        rc = _blocks(r_.count, size, "Gather recv") if r_ is not None else None

        def fin(ent):
            d = dict(ent)
            _sr, rr, rcr = d[root]
            for p, (sp, _rp, _rcp) in d.items():
                _same_sig("Gather", p, sp.count, sp.datatype, root, rcr, rr.datatype)
                nb = sp.count * sp.datatype.extent
                rr.u8[p * nb:(p + 1) * nb] = sp.u8[:nb]
            return {r: None for r in d}
        self._coll("Gather", {"root": root}, (s, r_, rc), fin)

    def Gatherv(self, sendbuf, recvbuf, root=0):
        me = self.Get_rank()
        size = self.Get_size()
        s = _parse_buf(sendbuf)
        r_ = None
        if me == root:
            r_ = _parse_buf(recvbuf, writable=True)
            if r_.counts is None:
                c = _blocks(r_.count, size, "Gatherv recv")
                r_.counts = [c] * size
                r_.displs = [c * i for i in range(size)]
            if len(r_.counts) != size or len(r_.displs) != size:
                raise ValueError("Gatherv: counts/displs must have one entry per rank")

        def fin(ent):
            d = dict(ent)
            _sr, rr = d[root]
            ext = rr.datatype.extent
            for p, (sp, _rp) in d.items():
                _same_sig("Gatherv", p, sp.count, sp.datatype, root, rr.counts[p], rr.datatype)
                lo = rr.displs[p] * ext
                nb = sp.count * sp.datatype.extent
                if lo + nb > rr.u8.size:
                    raise CollectiveMismatch("Gatherv: block of rank %d exceeds receive buffer" % p)
                rr.u8[lo:lo + nb] = sp.u8[:nb]
            return {r: None for r in d}
        self._coll("Gatherv", {"root": root}, (s, r_), fin)

    def Scatter(self, sendbuf, recvbuf, root=0):
        size = self.Get_size()
        me = self.Get_rank()
        s = _parse_buf(sendbuf) if me == root else None
        r_ = _parse_buf(recvbuf, writable=True)
        sc = _blocks(s.count, size, "Scatter send") if s is not None else None

        def fin(ent):
            d = dict(ent)
            sr, _rr, scr = d[root]
            nb = scr * sr.datatype.extent
            for p, (_sp, rp, _scp) in d.items():
                _same_sig("Scatter", root, scr, sr.datatype, p, rp.count, rp.datatype)
                rp.u8[:nb] = sr.u8[p * nb:(p + 1) * nb]
            return {r: None for r in d}
        self._coll("Scatter", {"root": root}, (s, r_, sc), fin)

    def Allgatherv(self, sendbuf, recvbuf):
        size = self.Get_size()
        s = _parse_buf(sendbuf)
        r_ = _parse_buf(recvbuf, writable=True)
        if r_.counts is None:
            c = _blocks(r_.count, size, "Allgatherv recv")
            r_.counts = [c] * size
            r_.displs = [c * i for i in range(size)]
        if len(r_.counts) != size or len(r_.displs) != size:
            raise ValueError("Allgatherv: counts/displs must have one entry per rank")
        if np.shares_memory(s.u8, r_.u8) and s.count and r_.u8.size:
            raise CollectiveMismatch("Allgatherv: send and receive buffers overlap (forbidden by MPI)")

        def fin(ent):
            d = dict(ent)
            for p, (sp, _rp) in d.items():
                nb = sp.count * sp.datatype.extent
                for q, (_sq, rq) in d.items():
                    _same_sig("Allgatherv", p, sp.count, sp.datatype, q, rq.counts[p], rq.datatype)
                    lo = rq.displs[p] * rq.datatype.extent
                    if lo + nb > rq.u8.size:
                        raise CollectiveMismatch("Allgatherv: block of rank %d exceeds the receive buffer of rank %d" % (p, q))
                    rq.u8[lo:lo + nb] = sp.u8[:nb]
            return {r: None for r in d}
        self._coll("Allgatherv", {}, (s, r_), fin)

    def Alltoallv(self, sendbuf, recvbuf):
        size = self.Get_size()
        s = _parse_buf(sendbuf)
        r_ = _parse_buf(recvbuf, writable=True)
        for b_, what in ((s, "send"), (r_, "recv")):
            if b_.counts is None:
                c = _blocks(b_.count, size, "Alltoallv " + what)
                b_.counts = [c] * size
                b_.displs = [c * i for i in range(size)]
            if len(b_.counts) != size or len(b_.displs) != size:
                raise ValueError("Alltoallv: counts/displs must have one entry per rank")

        def fin(ent):
            d = dict(ent)
            for p, (sp, _rp) in d.items():
                es = sp.datatype.extent
                for q, (_sq, rq) in d.items():
                    _same_sig("Alltoallv", p, sp.counts[q], sp.datatype, q, rq.counts[p], rq.datatype)
                    nb = sp.counts[q] * es
                    a = sp.displs[q] * es
                    lo = rq.displs[p] * rq.datatype.extent
                    if lo + nb > rq.u8.size or a + nb > sp.u8.size:
                        raise CollectiveMismatch("Alltoallv: block %d->%d exceeds a buffer" % (p, q))
                    rq.u8[lo:lo + nb] = sp.u8[a:a + nb]
            return {r: None for r in d}
        self._coll("Alltoallv", {}, (s, r_), fin)

    def Scatterv(self, sendbuf, recvbuf, root=0):
        size = self.Get_size()
        me = self.Get_rank()
        s = _parse_buf(sendbuf) if me == root else None
        r_ = _parse_buf(recvbuf, writable=True)
        if s is not None:
            if s.counts is None:
                c = _blocks(s.count, size, "Scatterv send")
                s.counts = [c] * size
                s.displs = [c * i for i in range(size)]
            if len(s.counts) != size or len(s.displs) != size:
                raise ValueError("Scatterv: counts/displs must have one entry per rank")

        def fin(ent):
            d = dict(ent)
            sr, _rr = d[root]
            es = sr.datatype.extent
            for p, (_sp, rp) in d.items():
                _same_sig("Scatterv", root, sr.counts[p], sr.datatype, p, rp.count, rp.datatype)
                nb = sr.counts[p] * es
                a = sr.displs[p] * es
                rp.u8[:nb] = sr.u8[a:a + nb]
            return {r: None for r in d}
        self._coll("Scatterv", {"root": root}, (s, r_), fin)

    # attribute caching (process-local, per communicator handle) ---------------------------------
    _next_keyval = [1000]

    @classmethod
    def Create_keyval(cls, copy_fn=None, delete_fn=None, nopython=False):
        cls._next_keyval[0] += 1
        return cls._next_keyval[0]

    @classmethod
    def Free_keyval(cls, keyval):
        return KEYVAL_INVALID

    def _attrs(self):
        h = self._resolve()
        if h._sh is None:
            raise Exception_("MPI_ERR_COMM: invalid communicator")
        # one table per rank and communicator (the handle objects of one rank on one communicator may differ)
        tab = h._sh.__dict__.setdefault("_attr_tables", {})
        return tab.setdefault(h._rk, {})

    def Get_attr(self, keyval):
        return self._attrs().get(keyval)

    def Set_attr(self, keyval, attrval):
        self._attrs()[keyval] = attrval

    def Delete_attr(self, keyval):
        self._attrs().pop(keyval, None)

    def __getattr__(self, name):
        # only reached for names that are not defined: parts of the mpi4py interface this simulation does not model
        if name.startswith("_"):
            raise AttributeError(name)
        raise SimUnsupported("simulated MPI does not implement Comm.%s" % name)

    # communicator constructors --------------------------------------------------------------------
    def Dup(self):
        h = self._resolve()

        def fin(ent):
            sh = _Shared("%s>dup%d" % (h._sh.cid, h._sh.seq[0]), h._sh.members)
            h._w._register(sh)
            return {r: sh for r, _ in ent}
        sh = self._coll("Dup", {}, None, fin)
        return type(h)(sh, h._rk, h._w)

    def Split(self, color=0, key=0):
        h = self._resolve()
        color = int(color)
        key = int(key)

        def fin(ent):
            groups = {}
            for r, (c, k) in ent:
                groups.setdefault(c, []).append((k, r))
            out = {}
            seq = h._sh.seq[ent[-1][0]] - 1
            for c, lst in groups.items():
                if c == UNDEFINED:
                    for _k, r in lst:
                        out[r] = (None, None)
                    continue
                lst.sort()
                sh = _Shared("%s>split%d:c%d" % (h._sh.cid, seq, c),
                             [h._sh.members[r] for _k, r in lst])
                h._w._register(sh)
                for i, (_k, r) in enumerate(lst):
                    out[r] = (sh, i)
            return out
        sh, rk = self._coll("Split", {}, (color, key), fin)
        if sh is None:
            return COMM_NULL
        return Intracomm(sh, rk, h._w)

    def Create_cart(self, dims, periods=None, reorder=False):
        h = self._resolve()
        dims = [int(d) for d in np.atleast_1d(dims)]
        n = int(np.prod(dims)) if len(dims) else 1
        if n > h._sh.size:
            raise Exception_("MPI_ERR_ARG: cartesian grid %r larger than communicator (%d)" % (dims, h._sh.size))
        if any(d <= 0 for d in dims):
            raise Exception_("MPI_ERR_DIMS: invalid dimension argument %r" % (dims,))

        def fin(ent):
            seq = h._sh.seq[ent[-1][0]] - 1
            alld = set(tuple(p) for _r, p in ent)
            if len(alld) > 1:
                raise CollectiveMismatch("Create_cart called with different dims: %r" % sorted(alld))
            sh = _Shared("%s>cart%d%r" % (h._sh.cid, seq, tuple(dims)), h._sh.members[:n])
            sh.cart_dims = tuple(dims)
            h._w._register(sh)
            return {r: (sh if r < n else None) for r, _ in ent}
        sh = self._coll("Create_cart", {}, tuple(dims), fin)
        if sh is None:
            return COMM_NULL
        return Cartcomm(sh, h._rk, h._w)


def _sigkey(sig):
    return tuple(sorted((k, v) for k, v in sig.items() if k in ("root", "op")))


def _same_sig(op, p, cp, tp, q, cq, tq):
    if tp is not tq or cp != cq:
        raise CollectiveMismatch(
            "%s: type signature mismatch: rank %d sends %d x %r but rank %d expects %d x %r"
            % (op, p, cp, tp, q, cq, tq))


def _reduce_fin(name, ent, op, root):
    d = dict(ent)
    first = ent[0][1][0]
    for r, (s, _rb) in ent:
        _same_sig(name, ent[0][0], first.count, first.datatype, r, s.count, s.datatype)
    dt = first.datatype.npdtype
    n = first.count
    acc = first.u8[:n * dt.itemsize].view(dt).copy()
    for _r, (s, _rb) in ent[1:]:
        acc = op._np(acc, s.u8[:n * dt.itemsize].view(dt)).astype(dt, copy=False)
    for r, (_s, rb) in d.items():
        if root is None or r == root:
            if rb is None:
                raise CollectiveMismatch("%s: root %d supplied no receive buffer" % (name, r))
            if rb.count < n or rb.datatype is not first.datatype:
                raise CollectiveMismatch("%s: receive buffer %d x %r too small / wrong type for %d x %r"
                                         % (name, rb.count, rb.datatype, n, first.datatype))
            rb.u8[:n * dt.itemsize] = acc.view(np.uint8)
    return {r: None for r in d}


class Intracomm(Comm):
    pass


class Cartcomm(Intracomm):
    @property
    def dims(self):
        return list(self._resolve()._sh.cart_dims)

    @property
    def ndim(self):
        return len(self._resolve()._sh.cart_dims)

    Get_dim = lambda self: len(self._resolve()._sh.cart_dims)  # noqa: E731

    def Get_topo(self):
        d = self.dims
        return (d, [False] * len(d), self.Get_coords(self.Get_rank()))

    @property
    def coords(self):
        return self.Get_coords(self.Get_rank())

    def Get_coords(self, rank):
        dims = self._resolve()._sh.cart_dims
        if not 0 <= rank < int(np.prod(dims)):
            raise Exception_("MPI_ERR_RANK: invalid rank %r" % (rank,))
        out = []
        for d in reversed(dims):
            out.append(rank % d)
            rank //= d
        return list(reversed(out))

    def Get_cart_rank(self, coords):
        dims = self._resolve()._sh.cart_dims
        r = 0
        for c, d in zip(coords, dims):
            r = r * d + c
        return r

    def Sub(self, remain_dims):
        h = self._resolve()
        dims = h._sh.cart_dims
        remain = tuple(bool(x) for x in remain_dims)
        if len(remain) != len(dims):
            raise Exception_("MPI_ERR_ARG: remain_dims has wrong length")

        def fin(ent):
            seq = h._sh.seq[ent[-1][0]] - 1
            allr = set(p for _r, p in ent)
            if len(allr) > 1:
                raise CollectiveMismatch("Cartcomm.Sub called with different remain_dims: %r" % sorted(allr))
            groups = {}
            for r, _p in ent:
                co = h.Get_coords(r)
                fixed = tuple(c for c, k in zip(co, remain) if not k)
                kept = tuple(c for c, k in zip(co, remain) if k)
                groups.setdefault(fixed, []).append((kept, r))
            out = {}
            for fixed, lst in groups.items():
                lst.sort()
                sh = _Shared("%s>sub%d%r@%r" % (h._sh.cid, seq, tuple(int(k) for k in remain), fixed),
                             [h._sh.members[r] for _k, r in lst])
                sh.cart_dims = tuple(d for d, k in zip(dims, remain) if k)
                h._w._register(sh)
                for i, (_k, r) in enumerate(lst):
                    out[r] = (sh, i)
            return out
        sh, rk = self._coll("Sub", {}, remain, fin)
        return Cartcomm(sh, rk, h._w)


class _WorldProxy(Intracomm):
    """MPI.COMM_WORLD: resolves to the calling thread's handle on its world."""

    def __init__(self):
        Comm.__init__(self, None, None, None)

    def _resolve(self):
        return _ctx().comm


class _SelfProxy(Intracomm):
    def __init__(self):
        Comm.__init__(self, None, None, None)

    def _resolve(self):
        c = _ctx()
        key = "_self_%d" % c.rank
        sh = getattr(c.world, key, None)
        if sh is None:
            sh = _Shared("SELF%d" % c.rank, [c.rank])
            setattr(c.world, key, sh)
        return Intracomm(sh, 0, c.world)


COMM_WORLD = _WorldProxy()
COMM_SELF = _SelfProxy()
COMM_NULL = Comm(None, None, None)
KEYVAL_INVALID = -1


def current_world():
    return _ctx().world


def current_rank():
    return _ctx().rank


# misc module-level API ---------------------------------------------------------------------

def Wtime():
    import time
    return time.time()


def Get_processor_name():
    return "simmpi"


def Is_initialized():
    return True


def Is_finalized():
    return False


def Init():
    pass


def Finalize():
    pass


def Get_version():
    return (3, 1)
