"""Small physical set-ups for the operator checks (C05, C10-C17): coordinate grids and spline
spaces built exactly the way pygyro's setupCylindricalGrid builds them, and Constants objects
with overridable parameters (incl. a caller-supplied r-dependent rotational transform)."""
from math import pi

import numpy as np


def make_space(spl, npts, degrees=(3, 3, 3, 3), domain=None, period=(False, True, True, False), force_general=False):
    """-> (eta_grids, bsplines, breaks) for dimensions (r, theta, z, v) (or fewer).
    force_general: declare the knots non-uniform so that cubic spaces also take the general path"""
    nkts = [n + 1 + d * (int(p) - 1) for n, d, p in zip(npts, degrees, period)]
    breaks = [np.linspace(lims[0], lims[1], num=num) for lims, num in zip(domain, nkts)]
    knots = [spl.make_knots(b, int(d), bool(p)) for b, d, p in zip(breaks, degrees, period)]
    bsplines = [spl.BSplines(k, int(d), bool(p), not force_general) for k, d, p in zip(knots, degrees, period)]
    eta = [np.asarray(b.greville) for b in bsplines]
    return eta, bsplines, breaks


def make_constants(**kw):
    """pygyro Constants with defaults, overridden by kw.  'iota_fn' (callable r->array) replaces
    the stock r-independent rotational transform."""
    from pygyro.initialisation.constants import Constants
    c = Constants()
    iota_fn = kw.pop("iota_fn", None)
    order = ["rMin", "rMax"] + [k for k in kw if k not in ("rMin", "rMax", "rp")] + (["rp"] if "rp" in kw else [])
    for k in order:
        if k in kw:
            setattr(c, k, kw[k])
    if any(k in kw for k in ("rMin", "rMax", "kN0", "deltaRN0", "rp")):
        c.getCN0()
    if iota_fn is not None:
        c.iota = iota_fn
    return c


def std_domain(c):
    return [[c.rMin, c.rMax], [0, 2 * pi], [c.zMin, c.zMax], [c.vMin, c.vMax]]


def f_eq(r, v, c):
    """equilibrium distribution from its documented formula (independent of initialiser_funcs)"""
    n0 = c.CN0 * np.exp(-c.kN0 * c.deltaRN0 * np.tanh((r - c.rp) / c.deltaRN0))
    Ti = c.CTi * np.exp(-c.kTi * c.deltaRTi * np.tanh((r - c.rp) / c.deltaRTi))
    return n0 * np.exp(-0.5 * v * v / Ti) / np.sqrt(2 * pi * Ti)


def n0(r, c):
    return c.CN0 * np.exp(-c.kN0 * c.deltaRN0 * np.tanh((r - c.rp) / c.deltaRN0))


def Ti(r, c):
    return c.CTi * np.exp(-c.kTi * c.deltaRTi * np.tanh((r - c.rp) / c.deltaRTi))


def Te(r, c):
    return c.CTe * np.exp(-c.kTe * c.deltaRTe * np.tanh((r - c.rp) / c.deltaRTe))


def bz(r, iota_r, R0):
    return 1.0 / np.sqrt(1.0 + (r * iota_r / R0) ** 2)


class PeriodicSplineRef:
    """reference periodic interpolating spline on a pygyro theta-basis: dense collocation solve +
    de Boor evaluation (vlib.refmath); built once per basis, applied to many rows."""

    def __init__(self, basis, pts):
        from vlib import refmath as rm
        self.rm = rm
        self.T = rm.knots_of(basis)
        self.p = basis.degree
        self.nb = basis.nbasis
        self.n = len(self.T) - self.p - 1
        self.M = rm.collocation(self.T, self.p, pts, periodic_nb=self.nb if basis.periodic else None)
        self.kappa = float(np.linalg.cond(self.M))
        self.Minv = np.linalg.inv(self.M)
        self.a, self.b = rm.domain_of(self.T, self.p)
        self.periodic = basis.periodic
        self._cache = {}

    def coeffs(self, u):
        c = self.Minv @ np.asarray(u)
        full = np.zeros(self.n, dtype=c.dtype)
        full[:self.nb] = c
        if self.periodic:
            full[self.nb:] = c[:self.n - self.nb]
        return full

    def basis_matrix(self, xs):
        """matrix E with S(xs) = E @ u for data u at the interpolation points"""
        xs = np.asarray(xs, dtype=float)
        B = np.array([self.rm.basis_all(self.T, self.p, x) for x in xs])     # (nx, n)
        if self.periodic:
            F = B[:, :self.nb].copy()
            F[:, :self.n - self.nb] += B[:, self.nb:]
            B = F
        return B @ self.Minv

    def eval(self, u, xs):
        return self.basis_matrix(xs) @ np.asarray(u)
