"""C19 child interpreter: executes a pickled call stream against ONE implementation of the kernels
(the extension modules of a scratch build loaded under private names, or a numba_/pythran_ source
copy run as plain Python) or an end-to-end workload through pygyro's own classes, and streams one
record per call to an output file (flushed after every record, so that an abort inside a kernel --
Fortran runtime error, sanitizer, segfault -- leaves the finished calls and the name of the fatal
one behind).

usage:  python c19_child.py <job.pkl>

job keys
    mode        "compiled" | "copy" | "e2e"
    out         path of the record stream
    verif       /verif (appended to sys.path for vlib.c19_kernels)
    calls       path of the pickled list of calls           (compiled, copy)
    build       root of the scratch tree                     (compiled, e2e)
    units       {module: {"file", "how", "name", "syspath"}} (copy)
    workload    name, seed                                   (e2e)
    san_logs    prefix of the sanitizer log files (optional): growth is recorded per call
"""
import glob
import importlib
import importlib.machinery
import importlib.util
import inspect
import os
import pickle
import sys
import time

SUBPKG = {"spline_eval_funcs": "splines", "cubic_uniform_spline_eval_funcs": "splines",
          "initialiser_funcs": "initialisation", "poisson_tools": "poisson",
          "accelerated_advection_steps": "advection"}


class Out:
    def __init__(self, path):
        self.f = open(path, "ab")

    def put(self, *rec):
        pickle.dump(rec, self.f, protocol=4)
        self.f.flush()


def san_size(prefix):
    if not prefix:
        return 0
    n = 0
    for p in glob.glob(prefix + "*"):
        try:
            n += os.path.getsize(p)
        except OSError:
            pass
    return n


def mark(msg):
    try:
        os.write(2, ("@@C19 %s\n" % msg).encode())
    except OSError:
        pass


def load_extension(build, mod):
    pat = os.path.join(build, "pygyro", SUBPKG[mod], mod + ".*.so")
    hits = sorted(glob.glob(pat))
    if not hits:
        raise FileNotFoundError("no extension module matches %s" % pat)
    name = "c19bin." + mod
    loader = importlib.machinery.ExtensionFileLoader(name, hits[0])
    spec = importlib.util.spec_from_file_location(name, hits[0], loader=loader)
    m = importlib.util.module_from_spec(spec)
    loader.exec_module(m)
    return m


def signatures(module):
    out = {}
    for k, v in vars(module).items():
        if k.startswith("_") or not inspect.isfunction(v):
            continue
        if getattr(v, "__module__", None) != module.__name__:
            continue        # imported from elsewhere (numpy, another copy)
        try:
            sig = inspect.signature(v)
        except (TypeError, ValueError):
            continue
        params = []
        for p in sig.parameters.values():
            params.append({"name": p.name, "kind": int(p.kind),
                           "default": (None if p.default is inspect.Parameter.empty else repr(p.default)),
                           "has_default": p.default is not inspect.Parameter.empty})
        out[k] = params
    return out


def load_unit(unit):
    for d in reversed(unit.get("syspath", [])):
        if d in sys.path:
            sys.path.remove(d)
        sys.path.insert(0, d)
    if unit["how"] == "import":
        m = importlib.import_module(unit["name"])
    else:
        name = unit["name"]
        loader = importlib.machinery.SourceFileLoader(name, unit["file"])
        spec = importlib.util.spec_from_loader(name, loader)
        m = importlib.util.module_from_spec(spec)
        sys.modules[name] = m
        loader.exec_module(m)
    got = os.path.realpath(getattr(m, "__file__", "") or "")
    if got != os.path.realpath(unit["file"]):
        raise RuntimeError("copy %s was imported from %s" % (unit["file"], got))
    return m


def run_stream(job, out, namespace):
    from vlib import c19_kernels as K
    with open(job["calls"], "rb") as f:
        calls = pickle.load(f)
    prefix = job.get("san_logs")
    for i, call in enumerate(calls):
        mod = namespace.get(call["mod"])
        fn = getattr(mod, call["fn"], None) if mod is not None else None
        out.put("start", i, call["mod"], call["fn"])
        if fn is None:
            out.put("done", i, {"exc": ("MissingKernel", "%s.%s" % (call["mod"], call["fn"])), "ret": None, "arrs": {}, "san": 0, "missing": True})
            continue
        mark("call %d %s.%s" % (i, call["mod"], call["fn"]))
        s0 = san_size(prefix)
        rec = K.run_call(fn, call)
        rec["san"] = san_size(prefix) - s0
        out.put("done", i, rec)
    out.put("end", len(calls))


# ------------------------------------------------------------------------------------------------
# end-to-end workloads through pygyro's own classes (imported from the scratch tree on PYTHONPATH)


def _check_compiled(build):
    """the five kernel modules pygyro will use must be the extension modules of `build`"""
    files = {}
    for mod, sub in SUBPKG.items():
        m = importlib.import_module("pygyro.%s.%s" % (sub, mod))
        f = os.path.realpath(m.__file__)
        if not (f.startswith(os.path.realpath(build) + os.sep) and f.endswith(".so")):
            raise RuntimeError("pygyro.%s.%s resolved to %s, expected an extension module under %s" % (sub, mod, f, build))
        files[mod] = f
    return files


def e2e_splines(rng, rs, step):
    import numpy as np
    import pygyro.splines as spl
    n = 0
    combos = [(p, per, uni) for p in (1, 2, 3, 4, 5) for per in (False, True) for uni in (False, True)]
    for p, per, uni in combos:
        step("splines/p%d/%s/%s" % (p, "per" if per else "clamped", "uniform-flag" if uni else "general"))
        nc = rng.randint(p + 3, 14)
        a = rng.uniform(-3, 3)
        L = rng.uniform(0.5, 8)
        if uni:
            breaks = np.linspace(a, a + L, nc + 1)
        else:
            w = rs.uniform(0.3, 1.0, nc)
            breaks = a + L * np.concatenate([[0.0], np.cumsum(w)]) / w.sum()
            breaks[-1] = a + L
        knots = spl.make_knots(breaks, p, per)
        b = spl.BSplines(knots, p, per, uni)
        s = spl.Spline1D(b)
        it = spl.SplineInterpolator1D(b)
        x = np.asarray(b.greville, dtype=float)
        it.compute_interpolant(np.cos(x) + 0.1 * x, s)
        pts = [a, a + L, float(np.nextafter(a, a + L)), float(np.nextafter(a + L, a))] + [float(t) for t in breaks[1:-1][:4]] \
            + [rng.uniform(a, a + L) for _ in range(4)]
        for der in (0, 1):
            for t in pts:
                v = s.eval(t, der)
                assert np.isfinite(v)
                n += 1
            v = s.eval(np.array(pts), der)
            assert np.all(np.isfinite(v))
            n += 1
        y = np.empty(len(pts))
        s.eval_vector(np.array(pts), y)
        n += 1
        _ = b.integrals
    for p1, p2, uni in [(3, 3, True), (3, 3, False), (2, 4, False), (5, 1, False), (1, 2, False)]:
        step("splines2d/p%d,p%d/%s" % (p1, p2, "uniform-flag" if uni else "general"))
        n1, n2 = rng.randint(p1 + 3, 10), rng.randint(max(p2, 3) + 2, 9)
        br1 = np.linspace(0, 2 * np.pi, n1 + 1)
        br2 = np.linspace(0.2, 3.0, n2 + 1)
        b1 = spl.BSplines(spl.make_knots(br1, p1, True), p1, True, uni)
        b2 = spl.BSplines(spl.make_knots(br2, p2, False), p2, False, uni)
        s2 = spl.Spline2D(b1, b2)
        it2 = spl.SplineInterpolator2D(b1, b2)
        X, Y = np.asarray(b1.greville, float), np.asarray(b2.greville, float)
        it2.compute_interpolant(np.outer(np.cos(X), 1 + Y), s2)
        for d1, d2 in ((0, 0), (1, 0), (0, 1), (1, 1)):
            for t1, t2 in [(0.0, 0.2), (2 * np.pi, 3.0), (rng.uniform(0, 6.28), rng.uniform(0.2, 3.0))]:
                v = s2.eval(t1, t2, d1, d2)
                assert np.isfinite(v)
                n += 1
            v = s2.eval(X, Y, d1, d2)
            assert np.all(np.isfinite(v))
            n += 1
    return n


def _space(rng, npts, degrees):
    import pygyro.splines as spl
    from vlib import physgen as pg
    c = pg.make_constants(rMin=rng.uniform(0.2, 1.0), rMax=rng.uniform(4, 9), npts=list(npts), splineDegrees=list(degrees))
    eta, bs, _ = pg.make_space(spl, c.npts, c.splineDegrees, pg.std_domain(c))
    return c, eta, bs


def e2e_flux(rng, rs, step):
    import numpy as np
    from pygyro.advection import advection as adv
    from pygyro.model.layout import Layout
    n = 0
    for deg in (3, rng.choice([1, 2, 4, 5])):
        nr, nth, nz, nv = 3, rng.randint(6, 10), rng.randint(6, 9), 3
        c, eta, bs = _space(rng, [nr, nth, nz, nv], [2, deg, 3, 2])
        dz = eta[2][1] - eta[2][0]
        vref = float(np.abs(eta[3]).max()) or 1.0
        for cells in (0.4, 2.7, -1.3):
            step("flux/p%d/%.1f-cells" % (deg, cells))
            dt = cells * dz / vref
            layout = Layout('flux_surface', [1, 1], [0, 3, 1, 2], eta, [0, 0])
            op = adv.FluxSurfaceAdvection(eta, [bs[1], bs[2]], layout, dt, c)
            for ri in range(nr):
                for vi in range(nv):
                    F = rs.standard_normal((nth, nz))
                    op.step(F, vi, ri)
                    assert np.all(np.isfinite(F))
                    n += 1
    return n


def e2e_vpar(rng, rs, step):
    import numpy as np
    from pygyro.advection import advection as adv
    n = 0
    for deg in (3, rng.choice([1, 2, 4, 5])):
        nv = rng.randint(max(deg + 3, 6), 14)
        c, eta, bs = _space(rng, [4, 6, 6, nv], [3, 3, 3, deg])
        D = eta[3][-1] - eta[3][0]
        dv = D / (nv - 1)
        for edge in ("fEq", "null", "periodic"):
            step("vpar/p%d/%s" % (deg, edge))
            op = adv.VParallelAdvection(eta, bs[3], c, edge=edge)
            for shift in (0.0, 0.37 * dv, -2.4 * dv, D, -1.5 * D - 0.2 * dv, 3 * D):
                f = rs.standard_normal(nv)
                op.step(f, 1.0, shift, float(rng.choice(list(eta[0]))))
                assert np.all(np.isfinite(f))
                n += 1
    return n


def e2e_poloidal(rng, rs, step):
    import numpy as np
    import pygyro.splines as spl
    from pygyro.advection import advection as adv
    n = 0
    for deg in (3, rng.choice([2, 4])):
        nr, nth = rng.randint(deg + 4, 9), rng.randint(deg + 4, 10)
        c, eta, bs = _space(rng, [nr, nth, 3, 3], [deg, deg, 2, 2])
        phi = spl.Spline2D(bs[1], bs[0])
        it = spl.SplineInterpolator2D(bs[1], bs[0])
        q = np.atleast_2d(eta[1]).T
        r = eta[0]
        rmid = 0.5 * (r[0] + r[-1])
        it.compute_interpolant(0.5 * np.cos(q + 0.4) * (1 + 0.3 * np.sin(r - rmid)) * np.ones((nth, nr)), phi)
        hr = (r[-1] - r[0]) / (nr - 1)
        for explicit in (True, False):
            for nul in (False, True):
                step("poloidal/p%d/%s/nul-%s" % (deg, "expl" if explicit else "impl", nul))
                op = adv.PoloidalAdvection(eta, [bs[1], bs[0]], c, nul, explicit, 1e-10)
                for dt in (0.3 * hr * r[0], -0.15 * hr * r[0]):
                    f = np.exp(-((r - rmid) ** 2)) * (1 + 0.2 * np.cos(q)) + 0.01 * rs.standard_normal((nth, nr))
                    f = np.ascontiguousarray(f)
                    op.step(f, float(dt), phi, float(rng.uniform(-3, 3)))
                    assert np.all(np.isfinite(f))
                    n += 1
    return n


WORKLOADS = {"splines": e2e_splines, "flux": e2e_flux, "vpar": e2e_vpar, "poloidal": e2e_poloidal}


def run_e2e(job, out):
    import random
    import numpy as np
    files = _check_compiled(job["build"])
    out.put("meta", {"files": files, "runtime": sanitizer_runtime_loaded()})
    rng = random.Random("e2e/%s/%d" % (job["workload"], job["seed"]))
    rs = np.random.RandomState(rng.randrange(1 << 31))
    prefix = job.get("san_logs")
    state = {"i": 0, "s0": san_size(prefix), "name": None}

    def step(name):
        # close the previous step, open the next
        if state["name"] is not None:
            out.put("done", state["i"], {"exc": None, "san": san_size(prefix) - state["s0"], "name": state["name"]})
            state["i"] += 1
        state["name"] = name
        state["s0"] = san_size(prefix)
        out.put("start", state["i"], "e2e", name)
        mark("e2e %d %s" % (state["i"], name))
    try:
        n = WORKLOADS[job["workload"]](rng, rs, step)
        exc = None
    except Exception as e:  # noqa: BLE001
        import traceback
        n = 0
        exc = (type(e).__name__, str(e)[:300], traceback.format_exc()[-1500:])
    if state["name"] is not None:
        out.put("done", state["i"], {"exc": exc, "san": san_size(prefix) - state["s0"], "name": state["name"]})
    out.put("end", state["i"] + 1, {"operations": n, "exc": exc})


def sanitizer_runtime_loaded():
    try:
        with open("/proc/self/maps") as f:
            maps = f.read()
        return {"asan": "libasan" in maps, "ubsan": "libubsan" in maps}
    except OSError:
        return {}


def main():
    with open(sys.argv[1], "rb") as f:
        job = pickle.load(f)
    if job.get("verif") and job["verif"] not in sys.path:
        sys.path.append(job["verif"])
    out = Out(job["out"])
    t0 = time.time()
    # hard wall-clock limit of our own (default action of SIGALRM terminates the process, native code
    # included): an orphaned child must never spin for ever
    import signal
    signal.alarm(int(job.get("limit", 1200)))
    mode = job["mode"]
    if mode == "compiled":
        ns = {}
        files = {}
        for mod in job["modules"]:
            try:
                ns[mod] = load_extension(job["build"], mod)
                files[mod] = ns[mod].__file__
            except Exception as e:  # noqa: BLE001
                files[mod] = "LOAD FAILED: %s: %s" % (type(e).__name__, e)
        out.put("meta", {"files": files, "runtime": sanitizer_runtime_loaded(), "exported": {m: sorted(k for k in dir(v) if not k.startswith("_")) for m, v in ns.items()}})
        run_stream(job, out, ns)
    elif mode == "copy":
        ns = {}
        meta = {"files": {}, "signatures": {}, "load_error": {}, "numba_stub": None, "aot": {}}
        for mod, unit in job["units"].items():
            try:
                m = load_unit(unit)
                ns[mod] = m
                meta["files"][mod] = m.__file__
                meta["signatures"][mod] = signatures(m)
                meta["aot"][mod] = any(type(v).__name__ == "CC" and type(v).__module__.startswith("numba") for v in vars(m).values())
            except Exception as e:  # noqa: BLE001
                import traceback
                meta["load_error"][mod] = "%s: %s\n%s" % (type(e).__name__, e, traceback.format_exc()[-1200:])
        if "numba" in sys.modules:
            meta["numba_stub"] = bool(getattr(sys.modules["numba"], "C19_STUB", False))
            try:
                import numba.pycc as pycc
                meta["aot_modules"] = [(c.name, [e[0] for e in c.exports]) for c in pycc.INSTANCES]
            except Exception:  # noqa: BLE001
                meta["aot_modules"] = []
        out.put("meta", meta)
        run_stream(job, out, ns)
    elif mode == "e2e":
        run_e2e(job, out)
    else:
        raise SystemExit("unknown mode %r" % mode)
    out.put("bye", round(time.time() - t0, 3))


if __name__ == "__main__":
    main()
