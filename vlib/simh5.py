"""mpio emulation for h5py (DESIGN.md section 2.2).

`install()` replaces ``h5py.File`` in this process by a factory: ``h5py.File(name, mode,
driver='mpio', comm=c)`` becomes a COLLECTIVE on c (recorded in the simulated-MPI trace as
``h5.open``): the first arriver creates one real serial h5py file, all ranks share it;
``create_dataset`` and ``attrs.create`` are collective metadata operations whose arguments must agree
on all ranks (else CollectiveMismatch); ``dset[slices] = block`` is independent I/O on the shared file
(hyperslabs are logged so that checks can verify disjointness / coverage); the real file is closed when
the last rank closes (``h5.close``).  Any other call is plain serial h5py.  Only one simulated rank
runs at a time, so the shared handle is never used concurrently.
"""
import numpy as np
import h5py

from mpi4py import MPI  # the simulated one (checks put it first on sys.path)

_REAL = None
LOG = []            # (filename, dataset, world rank, [(start, stop), ...]) of every hyperslab write


def install():
    global _REAL
    if _REAL is None:
        _REAL = h5py.File
        h5py.File = _factory
    return _REAL


def uninstall():
    global _REAL
    if _REAL is not None:
        h5py.File = _REAL
        _REAL = None


def _factory(name, mode='r', driver=None, comm=None, **kw):
    if driver != 'mpio':
        if driver is not None:
            kw["driver"] = driver
        return _REAL(name, mode, **kw)
    if comm is None:
        raise ValueError("simh5: driver='mpio' needs comm")
    h = comm._resolve()

    def fin(ent):
        args = set(p for _r, p in ent)
        if len(args) > 1:
            raise MPI.CollectiveMismatch("h5py.File(mpio) opened with different (name, mode) on different ranks: %r" % sorted(args))
        shared = {"file": _REAL(name, mode), "open": len(ent), "name": str(name), "dsets": {}}
        return {r: shared for r, _ in ent}
    shared = h._coll("h5.open", {}, (str(name), str(mode)), fin)
    return _SharedFile(shared, h)


class _SharedFile:
    def __init__(self, shared, comm):
        self._s = shared
        self._c = comm
        self._closed = False

    def create_dataset(self, name, shape=None, dtype=None, data=None, **kw):
        s = self._s
        key = (str(name), tuple(int(x) for x in shape) if shape is not None else None, str(np.dtype(dtype)) if dtype is not None else None)

        def fin(ent):
            args = set(p for _r, p in ent)
            if len(args) > 1:
                raise MPI.CollectiveMismatch("create_dataset called with different arguments on different ranks: %r" % sorted(args, key=str))
            d = s["file"].create_dataset(name, shape=shape, dtype=dtype, **kw)
            s["dsets"][str(name)] = d
            return {r: d for r, _ in ent}
        d = self._c._coll("h5.create_dataset", {}, key, fin)
        return _SharedDataset(d, self._c, s, str(name))

    def __getitem__(self, name):
        d = self._s["file"][name]
        return _SharedDataset(d, self._c, self._s, str(name))

    @property
    def attrs(self):
        return self._s["file"].attrs

    def __contains__(self, name):
        return name in self._s["file"]

    def keys(self):
        return self._s["file"].keys()

    def require_dataset(self, name, shape, dtype, **kw):
        if str(name) in self._s["dsets"] or name in self._s["file"]:
            return self[name]
        return self.create_dataset(name, shape=shape, dtype=dtype, **kw)

    def __getattr__(self, name):
        if name.startswith("_"):
            raise AttributeError(name)
        return getattr(self._s["file"], name)

    def flush(self):
        pass

    def close(self):
        if self._closed:
            return
        self._closed = True
        s = self._s

        def fin(ent):
            s["file"].close()
            return {r: None for r, _ in ent}
        self._c._coll("h5.close", {}, s["name"], fin)

    def __enter__(self):
        return self

    def __exit__(self, *a):
        self.close()


class _Attrs:
    def __init__(self, real, comm):
        self._a = real
        self._c = comm

    def create(self, name, data, shape=None, dtype=None):
        key = (str(name), np.asarray(data).tobytes(), str(np.asarray(data).dtype), tuple(shape) if shape is not None else None, repr(dtype))
        a = self._a

        def fin(ent):
            args = set(p for _r, p in ent)
            if len(args) > 1:
                raise MPI.CollectiveMismatch("attrs.create called with different arguments on different ranks")
            a.create(name, data, shape, dtype)
            return {r: None for r, _ in ent}
        self._c._coll("h5.attrs.create", {}, key, fin)

    def __getitem__(self, k):
        return self._a[k]

    def __setitem__(self, k, v):
        self.create(k, v)

    def __contains__(self, k):
        return k in self._a

    def keys(self):
        return self._a.keys()


class _SharedDataset:
    def __init__(self, real, comm, shared, name):
        self._d = real
        self._c = comm
        self._s = shared
        self._name = name

    def __setitem__(self, key, value):
        # independent I/O on the shared file; log the hyperslab
        sl = key if isinstance(key, tuple) else (key,)
        box = []
        for i, k in enumerate(sl):
            if isinstance(k, slice):
                st, en, _ = k.indices(self._d.shape[i])
                box.append((int(st), int(en)))
            else:
                box.append((int(k), int(k) + 1))
        LOG.append((self._s["name"], self._name, self._c._sh.members[self._c._rk], box))
        if all(b > a for a, b in box):
            self._d[key] = value

    def __getitem__(self, key):
        return self._d[key]

    def _log_sel(self, sel):
        if sel is None:
            sel = tuple(slice(None) for _ in self._d.shape)
        sl = sel if isinstance(sel, tuple) else (sel,)
        box = []
        for i, k in enumerate(sl):
            if isinstance(k, slice):
                st, en, _ = k.indices(self._d.shape[i])
                box.append((int(st), int(en)))
            else:
                box.append((int(k), int(k) + 1))
        LOG.append((self._s["name"], self._name, self._c._sh.members[self._c._rk], box))
        return box

    def read_direct(self, dest, source_sel=None, dest_sel=None):
        return self._d.read_direct(dest, source_sel, dest_sel)

    def write_direct(self, source, source_sel=None, dest_sel=None):
        box = self._log_sel(dest_sel)
        if all(b > a for a, b in box):
            return self._d.write_direct(source, source_sel, dest_sel)

    def __len__(self):
        return len(self._d)

    def __getattr__(self, name):
        # read-only properties and methods of the real dataset that need no emulation (ndim, size, name, chunks, astype, ...)
        if name.startswith("_"):
            raise AttributeError(name)
        return getattr(self._d, name)

    @property
    def attrs(self):
        return _Attrs(self._d.attrs, self._c)

    @property
    def shape(self):
        return self._d.shape

    @property
    def dtype(self):
        return self._d.dtype
