"""The driver's objects and its time-loop body, callable piecewise from rank programs.

`Stepper` builds exactly what fullSimulation.main() builds (same classes, same arguments, same
layout changes, same order) on a `simrun.Sim`, so that checks can observe the global fields after
every stage.  The real driver itself is run separately (C05/C18) -- this is the isolation harness."""
import numpy as np


class Stepper:
    def __init__(self, sim, chi=0, explicit=True, qn_degree=7, dens_degree=6, edge='fEq', nulEdge=False, adiabatic=True):
        from pygyro.advection.advection import FluxSurfaceAdvection, VParallelAdvection, PoloidalAdvection, ParallelGradient
        from pygyro.poisson.poisson_solver import DensityFinder, QuasiNeutralitySolver
        c = sim.c
        f = sim.f
        self.sim = sim
        self.c = c
        self.halfStep = c.dt * 0.5
        self.fullStep = c.dt
        self.fluxAdv = FluxSurfaceAdvection(f.eta_grid, [f.getSpline(1), f.getSpline(2)], f.getLayout('flux_surface'), self.halfStep, c)
        self.vParAdv = VParallelAdvection(f.eta_grid, f.getSpline(3), c, edge=edge)
        self.polAdv = PoloidalAdvection(f.eta_grid, [f.getSpline(1), f.getSpline(0)], c, nulEdge=nulEdge, explicitTrap=explicit)
        self.parGradVals = np.empty([f.getLayout('v_parallel').shape[0], c.npts[2], c.npts[1]])
        self.density = DensityFinder(dens_degree, f.getSpline(3), f.eta_grid, c)
        if adiabatic:
            self.QN = QuasiNeutralitySolver(f.eta_grid[:3], qn_degree, f.getSpline(0), c, chi=chi)
        else:
            self.QN = QuasiNeutralitySolver(f.eta_grid[:3], qn_degree, f.getSpline(0), c, adiabaticElectrons=False)
        self.parGrad = ParallelGradient(f.getSpline(1), f.eta_grid, sim.remapperPhi.getLayout('v_parallel_1d'), c)

    # ---- the driver's "find phi from f" block; f must be in (or is moved to) v_parallel ------------
    def compute_phi(self, observe=None):
        s = self.sim
        if s.f.currentLayout != 'v_parallel':
            s.f.setLayout('v_parallel')
        if s.rho.currentLayout != 'v_parallel_2d':
            s.rho.setLayout('v_parallel_2d')
        self.density.getPerturbedRho(s.f, s.rho)
        if observe:
            observe("rho", s.rho)
        self.QN.getModes(s.rho)
        if observe:
            observe("modes", s.rho)
        s.rho.setLayout('mode_solve')
        s.phi.setLayout('mode_solve')
        self.QN.solveEquation(s.phi, s.rho)
        if observe:
            observe("phi_hat", s.phi)
        s.phi.setLayout('v_parallel_2d')
        s.rho.setLayout('v_parallel_2d')
        self.QN.findPotential(s.phi)
        if observe:
            observe("phi", s.phi)

    # ---- one Strang-split time step exactly as in fullSimulation.py -----------------------------
    def step(self, observe=None):
        s = self.sim
        f, phi = s.f, s.phi
        o = observe or (lambda name, grid: None)
        f.setLayout('flux_surface')
        f.saveGridValues()
        self.fluxAdv.gridStep(f)
        o("p:flux", f)
        f.setLayout('v_parallel')
        phi.setLayout('v_parallel_1d')
        self.vParAdv.gridStep(f, phi, self.parGrad, self.parGradVals, self.halfStep)
        o("p:vpar", f)
        f.setLayout('poloidal')
        phi.setLayout('poloidal')
        self.polAdv.gridStep(f, phi, self.halfStep)
        o("p:pol", f)
        f.setLayout('v_parallel')
        self.compute_phi()
        o("p:phi", phi)
        f.restoreGridValues()
        self.fluxAdv.gridStep(f)
        o("c:flux1", f)
        f.setLayout('v_parallel')
        phi.setLayout('v_parallel_1d')
        self.vParAdv.gridStep(f, phi, self.parGrad, self.parGradVals, self.halfStep)
        o("c:vpar1", f)
        f.setLayout('poloidal')
        phi.setLayout('poloidal')
        self.polAdv.gridStep(f, phi, self.fullStep)
        o("c:pol", f)
        f.setLayout('v_parallel')
        self.vParAdv.gridStepKeepGradient(f, self.parGradVals, self.halfStep)
        o("c:vpar2", f)
        f.setLayout('flux_surface')
        self.fluxAdv.gridStep(f)
        o("c:flux2", f)
        f.setLayout('v_parallel')
        self.compute_phi()
        o("c:phi", phi)
