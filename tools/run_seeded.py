#!/venv/bin/python
"""Run the checks against the independently seeded faults kept under /verif/seeded/<id>/ (patch.diff,
demonstration, meta.json).  The patch is applied to a scratch copy of /repo under /tmp (removed
afterwards) and the check is pointed at it with VERIF_REPO, so /repo itself is never touched.
Usage: run_seeded.py [--tier quick|thorough] [--demo] [id-substring ...]"""
import json
import os
import shutil
import subprocess
import sys
import concurrent.futures as cf

HERE = os.path.dirname(os.path.dirname(os.path.abspath(__file__)))
SEEDED = os.path.join(HERE, "seeded")


def one(args):
    sid, tier, demo = args
    d = os.path.join(SEEDED, sid)
    meta = json.load(open(os.path.join(d, "meta.json")))
    prop = meta["property"]
    tier = meta.get("needs_tier", tier)          # a few seeds only manifest in what the thorough tier does (recorded in meta.json)
    scratch = "/tmp/vseed_%s" % sid
    shutil.rmtree(scratch, ignore_errors=True)
    subprocess.check_call(["rsync", "-a", "--exclude", ".git", "--exclude", "*.egg-info", "--exclude", "SEED", "/repo/", scratch + "/"])
    ap = subprocess.run(["git", "apply", "--unsafe-paths", "--directory", scratch, os.path.join(d, "patch.diff")], cwd="/", capture_output=True, text=True)
    if ap.returncode != 0:
        ap = subprocess.run(["patch", "-p1", "-d", scratch, "-i", os.path.join(d, "patch.diff")], capture_output=True, text=True)
    if ap.returncode != 0:
        shutil.rmtree(scratch, ignore_errors=True)
        return sid, prop, "PATCH-FAILED", (ap.stderr or ap.stdout)[-300:]
    out = []
    if demo:
        demo_file = next((f for f in ("demo.py", "demo_test.py") if os.path.exists(os.path.join(d, f))), None)
        if demo_file:
            shutil.copytree(d, os.path.join(scratch, "SEED", sid))
            dp = subprocess.run(["/venv/bin/python", os.path.join("SEED", sid, demo_file)], cwd=scratch, env=dict(os.environ, PYTHONPATH=scratch), capture_output=True, text=True, timeout=1800)
            out.append("demo exit=%d" % dp.returncode)
    ev = "/tmp/vseed_ev_%s" % sid
    os.makedirs(ev, exist_ok=True)
    fired = False
    for chk in meta.get("checks", [prop]):
        env = dict(os.environ, VERIF_REPO=scratch, VERIF_EVIDENCE_DIR=ev)
        cp = subprocess.run(["/venv/bin/python", "check.py", chk, "--tier", tier, "--workers", "6"], cwd=HERE, env=env, capture_output=True, text=True)
        keys = [ln.strip() for ln in cp.stdout.splitlines() if ln.strip().startswith("key=")]
        fired |= cp.returncode == 1
        out.append("%s exit=%d %s" % (chk, cp.returncode, keys[0][:170] if keys else ""))
    shutil.rmtree(ev, ignore_errors=True)
    shutil.rmtree(scratch, ignore_errors=True)
    try:
        with open(os.path.join(d, "detected.json"), "w") as f:
            json.dump({"id": sid, "property": prop, "tier": tier, "caught": bool(fired), "checks": out}, f, indent=1)
    except OSError:
        pass
    return sid, prop, "CAUGHT" if fired else "MISSED", " | ".join(out)


def main():
    argv = sys.argv[1:]
    tier = "quick"
    demo = False
    if "--tier" in argv:
        i = argv.index("--tier")
        tier = argv[i + 1]
        del argv[i:i + 2]
    if "--demo" in argv:
        demo = True
        argv.remove("--demo")
    ids = sorted(x for x in os.listdir(SEEDED) if os.path.isdir(os.path.join(SEEDED, x)) and (not argv or any(a in x for a in argv)))
    res = []
    with cf.ThreadPoolExecutor(3) as ex:
        for r in ex.map(one, [(i, tier, demo) for i in ids]):
            print("%-40s %-4s %-8s %s" % r, flush=True)
            res.append(r)
    print("\n%d seeded faults: %d caught, %d missed" % (len(res), sum(r[2] == "CAUGHT" for r in res), sum(r[2] == "MISSED" for r in res)))


if __name__ == "__main__":
    main()
