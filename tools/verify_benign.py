#!/venv/bin/python
"""Confirm a PROPERTY-PRESERVING change myself before keeping it (demo exits 0 with and without the patch, suite at baseline). Derived from verify_seed.py: in a scratch copy of /repo (under /tmp, removed
afterwards) the demonstration passes without the patch, fails with it, and the repository's own test
suite still gives the baseline result (2074 passed, 8 collection errors) with the patch applied.
Usage: verify_seed.py <dir containing patch.diff/demo/meta.json> ...   (writes verified.json into each dir)"""
import json
import os
import re
import shutil
import subprocess
import sys
import concurrent.futures as cf


def run_demo(scratch, sid, d):
    demo_file = next((f for f in ("demo.py", "demo_test.py") if os.path.exists(os.path.join(d, f))), None)
    dst = os.path.join(scratch, "BENIGN", sid)
    if not os.path.exists(dst):
        shutil.copytree(d, dst)
    if demo_file == "demo_test.py":
        cmd = ["/venv/bin/python", "-m", "pytest", "-q", "-p", "no:cacheprovider", os.path.join("BENIGN", sid, demo_file)]
    else:
        cmd = ["/venv/bin/python", os.path.join("BENIGN", sid, demo_file)]
    try:
        cp = subprocess.run(cmd, cwd=scratch, env=dict(os.environ, PYTHONPATH=scratch), capture_output=True, text=True, timeout=3000)
        return cp.returncode, (cp.stdout + cp.stderr)[-400:]
    except subprocess.TimeoutExpired:
        return -9, "timeout"


def one(d):
    d = os.path.abspath(d)
    sid = os.path.basename(d.rstrip("/"))
    scratch = "/tmp/vbverify_%s" % sid
    shutil.rmtree(scratch, ignore_errors=True)
    subprocess.check_call(["rsync", "-a", "--exclude", ".git", "--exclude", "*.egg-info", "--exclude", "SEED", "--exclude", "BENIGN", "/repo/", scratch + "/"])
    out = {"id": sid}
    rc0, tail0 = run_demo(scratch, sid, d)
    out["demo_without_patch_exit"] = rc0
    ap = subprocess.run(["git", "apply", "--unsafe-paths", "--directory", scratch, os.path.join(d, "patch.diff")], cwd="/", capture_output=True, text=True)
    out["patch_applies"] = ap.returncode == 0
    if ap.returncode != 0:
        out["error"] = ap.stderr[-300:]
        shutil.rmtree(scratch, ignore_errors=True)
        return out
    rc1, tail1 = run_demo(scratch, sid, d)
    out["demo_with_patch_exit"] = rc1
    out["demo_with_patch_tail"] = tail1[-250:]
    cp = subprocess.run(["/venv/bin/python", "-m", "pytest", "-q", "-p", "no:cacheprovider", "--timeout=900", "--continue-on-collection-errors", "--ignore=BENIGN"],
                        cwd=scratch, env=dict(os.environ, PYTHONPATH=scratch), capture_output=True, text=True)
    last = [ln for ln in cp.stdout.splitlines() if "passed" in ln or "failed" in ln]
    out["suite"] = last[-1] if last else cp.stdout[-200:]
    m = re.search(r"(\d+) passed", out["suite"])
    out["suite_ok"] = bool(m and int(m.group(1)) == 2074 and "failed" not in out["suite"] and "8 errors" in out["suite"])
    out["confirmed"] = bool(rc0 == 0 and rc1 == 0 and out["suite_ok"])
    shutil.rmtree(scratch, ignore_errors=True)
    with open(os.path.join(d, "verified.json"), "w") as f:
        json.dump(out, f, indent=1)
    return out


if __name__ == "__main__":
    with cf.ThreadPoolExecutor(4) as ex:
        for r in ex.map(one, sys.argv[1:]):
            print(json.dumps(r)[:600], flush=True)
