#!/venv/bin/python
"""Apply each planted break of tools/mutants.py to a scratch copy of /repo (under /tmp, removed
afterwards), run the quick check of the property it should break with VERIF_REPO pointing at the copy,
and report which monitor fired.  Usage: run_mutants.py [id-substring ...]"""
import json
import os
import shutil
import subprocess
import sys
import concurrent.futures as cf

HERE = os.path.dirname(os.path.dirname(os.path.abspath(__file__)))
sys.path.insert(0, HERE)
from tools.mutants import M  # noqa: E402

NOALARM_CHECKS = {"c02_alt_balanced_ok": ["C02", "C01", "C04"], "c20_ratio_le_ok": ["C20"]}


def one(m):
    mid, prop, rel, old, new = m[:5]
    every = len(m) > 5 and m[5] == "all"
    d = "/tmp/vmut_%s" % mid
    shutil.rmtree(d, ignore_errors=True)
    subprocess.check_call(["rsync", "-a", "--exclude", ".git", "--exclude", "*.egg-info", "/repo/", d + "/"])
    p = os.path.join(d, rel)
    s = open(p).read()
    if s.count(old) != 1 and not (every and s.count(old) > 1):
        shutil.rmtree(d, ignore_errors=True)
        return mid, prop, "PATCH-FAILED (%d occurrences)" % s.count(old), ""
    open(p, "w").write(s.replace(old, new))
    out = []
    ok_all = True
    for chk in ([prop] if prop else NOALARM_CHECKS[mid]):
        ev = "/tmp/vmut_ev_%s" % mid
        os.makedirs(ev, exist_ok=True)
        env = dict(os.environ, VERIF_REPO=d, VERIF_EVIDENCE_DIR=ev)
        cp = subprocess.run(["/venv/bin/python", "check.py", chk, "--tier", "quick", "--workers", "4"], cwd=HERE, env=env, capture_output=True, text=True)
        keys = [ln.strip() for ln in cp.stdout.splitlines() if ln.strip().startswith("key=")]
        fired = cp.returncode == 1
        want = prop is not None
        ok_all &= (fired == want)
        out.append("%s exit=%d %s" % (chk, cp.returncode, (keys[0][:160] if keys else "")))
        shutil.rmtree(ev, ignore_errors=True)
    shutil.rmtree(d, ignore_errors=True)
    return mid, prop, "OK" if ok_all else "MISSED" if prop else "FALSE-ALARM", " | ".join(out)


def main():
    sel = sys.argv[1:]
    ms = [m for m in M if not sel or any(x in m[0] for x in sel)]
    res = []
    with cf.ThreadPoolExecutor(4) as ex:
        for r in ex.map(one, ms):
            print("%-28s %-5s %-12s %s" % (r[0], r[1], r[2], r[3]), flush=True)
            res.append(r)
    bad = [r for r in res if r[2] != "OK"]
    print("\n%d mutants, %d not as expected: %s" % (len(res), len(bad), [r[0] for r in bad]))
    with open(os.path.join(HERE, "tools", "mutants_last_run.json"), "w") as f:
        json.dump(res, f, indent=1)


if __name__ == "__main__":
    main()
