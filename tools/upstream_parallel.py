#!/venv/bin/python
"""Exploration tool: run the repository's own MPI-marked tests (never collected by the pinned suite,
no MPI library here) on P simulated ranks under seeded arrival orders, with the collective matcher and
the deadlock detector watching.  usage: upstream_parallel.py [P ...]   (default 1 2 3 4 6)"""
import os
import sys
import tempfile
import traceback

sys.path.insert(0, os.path.dirname(os.path.dirname(os.path.abspath(__file__))))
from vlib import paths  # noqa: E402
paths.setup()
import pytest  # noqa: E402

MODULES = ["pygyro/model/test_layout.py", "pygyro/model/test_grid.py", "pygyro/diagnostics/test_norms.py", "pygyro/diagnostics/test_energy.py",
           "pygyro/initialisation/test_setup.py", "pygyro/utilities/test_saveTools.py"]


class Collect:
    def __init__(self):
        self.items = []

    def pytest_collection_modifyitems(self, items):
        self.items = list(items)


def collect():
    c = Collect()
    os.chdir(paths.REPO)
    pytest.main(["--collect-only", "-q", "-p", "no:cacheprovider"] + MODULES, plugins=[c])
    return c.items


def main():
    from mpi4py import MPI
    from vlib import simh5
    simh5.install()
    Ps = [int(a) for a in sys.argv[1:]] or [1, 2, 3, 4, 6]
    items = collect()
    print("collected", len(items))
    for it in items:
        if it.get_closest_marker("parallel") is None:
            continue
        params = dict(it.callspec.params) if hasattr(it, "callspec") else {}
        for P in Ps:
            for seed in (1, 2):
                d = tempfile.mkdtemp(prefix="upar_")
                os.chdir(d)
                fn = it.obj

                def prog(rank):
                    return fn(**params)
                try:
                    w = MPI.run_world(P, prog, schedule="random", seed=seed, timeout=600)
                    err = w.first_error()
                except BaseException as e:  # noqa: BLE001
                    print("%-70s P=%d seed=%d HARNESS %r" % (it.nodeid, P, seed, e))
                    continue
                finally:
                    os.chdir(paths.REPO)
                    import shutil
                    shutil.rmtree(d, ignore_errors=True)
                if err is None:
                    print("%-70s P=%d seed=%d ok  colls=%d" % (it.nodeid, P, seed, sum(w.events.values())))
                else:
                    tb = (w.tracebacks[err[0]] or "").strip().splitlines()
                    print("%-70s P=%d seed=%d FAIL rank %d %s: %s | %s" % (it.nodeid, P, seed, err[0], type(err[1]).__name__, str(err[1])[:200], " / ".join(t.strip() for t in tb[-4:])[:400]))
                sys.stdout.flush()


if __name__ == "__main__":
    try:
        main()
    except Exception:
        traceback.print_exc()
        sys.exit(2)
