#!/venv/bin/python
"""markdown table of the property-preserving changes kept under /verif/benign (for DESIGN.md section 9.6)"""
import json
import os

HERE = os.path.dirname(os.path.dirname(os.path.abspath(__file__)))
S = os.path.join(HERE, "benign")
print("| property-preserving change | property | what changes observably | confirmed (demo exits 0 with and without, suite 2074 passed) | check (quick tier) |")
print("|---|---|---|---|---|")
for sid in sorted(os.listdir(S)):
    d = os.path.join(S, sid)
    if not os.path.isdir(d):
        continue
    m = json.load(open(os.path.join(d, "meta.json")))
    v = json.load(open(os.path.join(d, "verified.json"))) if os.path.exists(os.path.join(d, "verified.json")) else {}
    det = json.load(open(os.path.join(d, "silent.json"))) if os.path.exists(os.path.join(d, "silent.json")) else {}
    what = str(m.get("what_changes_observably", "")).replace("\n", " ").replace("|", "/")
    if len(what) > 220:
        what = what[:217] + "..."
    out = ("silent" if det.get("silent") else "ALARM") if det else "?"
    print("| %s | %s | %s | %s | %s |" % (sid, m.get("property"), what, "yes" if v.get("confirmed") else ("?" if not v else "NO"), out))
