#!/venv/bin/python
"""Regenerate /verif/MANIFEST.json from the table below (keeps the file schema-valid).
A property is claimed iff checks/<id>.py exists; the others are listed under not_applicable."""
import json
import os

HERE = os.path.dirname(os.path.dirname(os.path.abspath(__file__)))

SIM = "simulated mpi4py (threads as ranks, collective matcher, deadlock detector) is a model of MPI semantics, self-tested before every run"
REF = "independent reference mathematics in vlib/refmath.py (numpy/scipy), tolerances c*eps*scale*kappa"

T = {
    "C01": dict(level="exploration", engine="simmpi", design="3/C01",
                technique="runtime monitor: unique-id global field compared bit-for-bit on every rank after real LayoutHandler.transpose under simulated MPI, path kind read from the collective trace",
                text="Every generated handler configuration runs the real transpose code on 1-12 simulated ranks; each destination block is compared bit-for-bit with the global unique-id field; all ordered pairs, with/without buffer, random walks with stale buffers. Held = on the explored configurations only.",
                note=SIM),
    "C02": dict(level="exploration", engine="direct+simmpi", design="3/C02",
                technique="runtime oracle on the real Layout class (exhaustive (n,p) box, every rank coordinate) and accessor monitors on real Grid objects under simulated MPI (value identity of a unique-id field)",
                text="Exhaustive tiling/balance/accessor agreement inside the (n,p) box for every rank coordinate, random multi-dimensional layouts, and every Grid accessor compared against coordinate arrays and the unique-id field on simulated ranks.",
                note=SIM + "; exhaustive only inside the stated box"),
    "C03": dict(level="exploration", engine="simmpi", design="3/C03",
                technique="runtime monitor: unique-id field compared on every rank after every real LayoutSwapper.transpose hop (gather/scatter/transpose/redirect read from the collective trace), replicas compared across ranks, random walks",
                text="Real LayoutSwapper code on 1-16 simulated ranks over templates taken from real use and perturbations of them; every hop compared bit-for-bit; replica agreement across ranks; known finding keyed by mechanism.",
                note=SIM),
    "C04": dict(level="exploration", engine="simmpi+model", design="3/C04",
                technique="runtime monitor: lock-step comparison of real Grid objects on simulated ranks with a one-array numpy model after every operation; exhaustive operation sequences to bounded length plus random histories; refusals observed",
                text="All operation sequences up to length 4 (quick) / 6 (thorough) over a 7-symbol alphabet on small handler and swapper configurations plus long random histories; layout name and data block compared with the model after every operation on every rank.",
                note=SIM + "; exhaustive only up to the stated history length"),
    "C05": dict(level="exploration", engine="simmpi+simh5+driver", design="3/C05",
                technique="runtime differential monitor: global fields assembled from all simulated ranks after every stage (driver-like stepper on random data with forced process grids) and the real driver's checkpoint files compared between P ranks and the serial run",
                text="Every stage of the quasi-neutrality pipeline and of the Strang step observed on forced process grids (1,P),(P,1),(a,b) with rotational transform 0, 0.8 and a sheared profile supplied through the constants' iota(r) hook, and random global state; the real fullSimulation.main() under simulated MPI + mpio emulation compared between process counts.",
                note=SIM + "; mpio emulation; expected difference is exactly 0, tolerance 1000*eps*scale"),
    "C06": dict(level="exploration", engine="simmpi scheduler", design="3/C06",
                technique="runtime monitors of the simulated MPI layer (collective matcher, logical deadlock detector, unmatched-rendezvous check, per-rank trace comparison) under enumerated and seeded arrival orders and across interpreter hash seeds (fresh processes)",
                text="Rank programs on the real code (layout managers, grid reductions and block gathers, diagnostics, set-up and saving with a plot-only rank, the driver); all arrival orders enumerated for small 2-rank programs, thousands of distinct orders otherwise; traces and route maps compared across 8-48 hash seeds.",
                note=SIM + "; a real MPI could additionally hang on mismatches that the matcher reports as errors"),
    "C07": dict(level="exploration", engine="refmath", design="3/C07",
                technique="runtime differential oracle: every evaluation entry point of the real spline classes compared with an independent de Boor/scipy reference on the knot vector the path really uses, over generated spaces, coefficient vectors and hostile points",
                text="Hundreds (quick) to tens of thousands (thorough) of generated spline spaces; every entry point, derivative order and point kind compared with an independent evaluator at c*eps*local scale; basis identities; fast vs general path.",
                note=REF),
    "C08": dict(level="exploration", engine="refmath", design="3/C08",
                technique="runtime oracle: interpolation identities (data at interpolation points, dense reference solve, polynomial reproduction, bit-identical periodic wrap) on the real interpolator classes over generated spaces and data",
                text="Generated 1-D/2-D spaces and data incl. badly scaled and complex; identities checked with tolerance scaled by the measured condition number; ill-conditioned spaces skipped and counted.",
                note=REF),
    "C09": dict(level="exploration", engine="refmath", design="3/C09",
                technique="runtime oracle: quadrature weights and stored basis integrals of the real classes compared with exact Gauss-Legendre integration of the interpolant / basis functions over generated spaces",
                text="q.u vs exact integral of the interpolant, weight sum, equal weights, stored integrals vs exact, for generated spaces incl. non-uniform periodic and tiny uniform-cubic spaces.",
                note=REF + "; for periodic spaces only the folded (periodic) basis integrals are demanded"),
    "C10": dict(level="exploration", engine="refmath+simmpi", design="3/C10",
                technique="runtime differential oracle: real FluxSurfaceAdvection.step/gridStep vs an independent implementation of the stated field-aligned Lagrange formula, plus metamorphic identities on the real code; grid level on simulated ranks",
                text="Generated set-ups (sizes, degrees, twist, displacement classes incl. beyond one period and on-node feet with cell widths that are not binary fractions; z domains not starting at 0, asymmetric velocity domains); every node compared; identities; gridStep on several process grids against the formula with global radius/velocity.",
                note=REF + "; " + SIM),
    "C11": dict(level="exploration", engine="refmath+simmpi", design="3/C11",
                technique="runtime differential oracle: real VParallelAdvection.step vs independent interpolate-and-shift with the three boundary rules; gridStep/gridStepKeepGradient on simulated ranks vs reference from global coordinates",
                text="Generated v-spaces, boundary modes and shifts (0 ... 3 domains); grid-level wiring on process grids splitting r, z, both, neither, with random global fields.",
                note=REF + "; " + SIM),
    "C12": dict(level="exploration", engine="refmath+stepcount", design="3/C12",
                technique="runtime differential oracle: real PoloidalAdvection.step vs an independent vectorised Heun / converged implicit-trapezoid implementation on dense-collocation 2-D splines; exact-solution anchors; sys.monitoring sweep counter for termination (logical steps, not seconds)",
                text="Generated grids, bases, potentials (smooth, rough, modes, rigid rotation, constant), dt over three decades and both signs, both boundary modes and schemes; every non-excluded node compared; anchors; termination inside the contraction regime bounded in sweeps; non-terminating hostile class recorded as known finding.",
                note=REF + "; Lipschitz constant of the drift estimated numerically (x1.2)"),
    "C13": dict(level="exploration", engine="refmath", design="3/C13",
                technique="runtime differential oracle: real ParallelGradient.parallel_gradient vs independent field-aligned finite-difference formula (exact-rational weights), identities and observed convergence order; per-rank Layout objects for the local-index mapping",
                text="Orders 2-6, generated sizes/degrees/twist incl. caller-supplied r-dependent transform, r split over 1-4 ranks, every local radial index and every node incl. seam rows; identities; convergence order.",
                note=REF),
    "C14": dict(level="exploration", engine="refmath+simmpi", design="3/C14",
                technique="runtime differential oracle: real DiffEqSolver output vs an independent dense Galerkin assembly and solve per mode; manufactured solutions, linearity, Dirichlet zeros, mode independence and refusal of ill-posed problems observed on the real code",
                text="Generated problems (degrees, cells, quadrature, coefficient functions, boundary patterns per mode, 1-4 simulated ranks); every (mode,z) radial profile compared with the dense reference at tolerance scaled by cond(K).",
                note=REF + "; " + SIM + "; uniform radial breakpoints"),
    "C15": dict(level="exploration", engine="refmath+simmpi", design="3/C15",
                technique="runtime differential oracle: every stage of the real density->modes->solve->inverse pipeline on simulated ranks vs an independent pipeline (numpy.fft + dense Galerkin with QN coefficients); FFT round trip; equilibrium fixed point of the full Strang step",
                text="Generated grids (even/odd theta counts, aliased modes, chi 0/1, kinetic electrons) on process grids up to 6 ranks; stage-wise comparison of assembled global fields; exact-zero and fixed-point checks for the equilibrium.",
                note=REF + "; " + SIM),
    "C16": dict(level="exploration", engine="refmath+simmpi", design="3/C16",
                technique="runtime differential oracle: real DensityFinder on simulated ranks vs exact Gauss-Legendre integral of the reference v-interpolant (minus equilibrium at the global radius)",
                text="Generated v-spaces (5-40 nodes, degree 1-5), data kinds and process grids splitting r and/or z; float and complex rho storage; every (r,theta,z) compared.",
                note=REF + "; " + SIM),
    "C17": dict(level="exploration", engine="simmpi", design="3/C17",
                technique="runtime oracle: sums over simulated ranks of the real local diagnostics, Grid.getMin/getMax at every drawing rank and DiagnosticCollector rows after reduce() vs serial quadrature / min / max of the assembled global random field; reductions combined in seeded arrival order",
                text="Generated grids and process grids up to 6 ranks, all layouts incl. replicated ones (one replica set), unit field vs analytic volume, slot bookkeeping of the collector for save intervals 1-4.",
                note=SIM + "; replicated layouts: sum over one replica set"),
    "C18": dict(level="exploration", engine="simmpi+simh5+driver", design="3/C18",
                technique="runtime monitor: bitwise round trip of checkpoints through an mpio-emulating h5py layer between different process counts, hyperslab partition check, constants round trip under key permutations and symbolic expressions, checkpoint selection, split-vs-unsplit runs of the real driver",
                text="Writer/reader process counts 1-6, all three layouts plus the complex potential, restart set-up with and without layout change; constants with all, none or a random part of the values moved off their defaults and non-midpoint peak radius; checkpoint times of 1-7 digits; driver continuity for save intervals 1-4 and all splits N+M<=4 on 1, 2 and 4 ranks.",
                note=SIM + "; parallel HDF5 is emulated (collective metadata with equal arguments, disjoint independent hyperslab writes)"),
    "C19": dict(level="translation_validation", engine="scratch pyccel build + sanitizers", design="3/C19",
                technique="runtime differential testing of every exported kernel: compiled (documented pyccel build of the working tree in a scratch copy; Fortran, thorough also C) vs interpreted source on generated argument streams; same stream and end-to-end workloads under gfortran -fcheck=all + ASan + UBSan; numba/pythran source copies executed as plain Python against the pyccel sources",
                text="Each run rebuilds the five accelerated modules from the current working tree (a failing documented build is a violation), compares all 38 public kernels compiled-vs-interpreted with c*eps*scale tolerances (integers exactly), runs the stream under the bounds checker and sanitizers (reports counted from logs), and compares the numba/pythran copies function by function.",
                note="numba-AOT and pythran compilers are not installed: only the Python semantics of those copies are covered; sanitizer coverage limited to the generated workloads; builds use the documented Makefile flow"),
    "C20": dict(level="exploration", engine="direct+simmpi", design="3/C20",
                technique="runtime oracle: brute-force divisor enumeration (exhaustive box + random), sys.monitoring line budget for termination, layouts built and transposed on the chosen grid under simulated MPI",
                text="Exhaustive comparison with brute force inside a bounded box, random sampling far beyond, termination judged in executed lines; the chosen grid is used to build and exercise the standard layouts.",
                note=SIM + "; exhaustive only inside the stated box"),
}

ALL = ["C%02d" % i for i in range(1, 21)]


def main():
    checks = []
    na = []
    for pid in ALL:
        have = os.path.exists(os.path.join(HERE, "checks", pid.lower() + ".py"))
        if have and pid in T:
            t = T[pid]
            checks.append({
                "property_id": pid,
                "quick_cmd": "/venv/bin/python check.py %s --tier quick" % pid,
                "thorough_cmd": "/venv/bin/python check.py %s --tier thorough" % pid,
                "evidence_file": "/verif/evidence/%s.json" % pid,
                "replay_cmd_template": "/venv/bin/python check.py %s --replay {path}" % pid,
                "engine": t["engine"],
                "level_claimed": {"category": t["level"], "text": t["text"], "design_ref": "DESIGN.md section " + t["design"]},
                "level_note": t["note"],
                "technique": t["technique"],
            })
        else:
            na.append({"property_id": pid, "reason": "not claimed yet: runtime monitor for this property is designed (DESIGN.md section 3) but its check is not built/validated in this commit"})
    m = {
        "version": 1,
        "setup_cmd": "./setup.sh",
        "hooks": {
            "guard": "PYGYRO_VERIF",
            "enable": "no source hooks are needed: all observation happens at API boundaries, in the simulated mpi4py/h5py layers put first on sys.path by the checks, by harness-side wrappers and by sys.monitoring; PYGYRO_VERIF is reserved and currently unused",
            "baseline_off_cmd": "cd /repo && env -u PYGYRO_VERIF /venv/bin/python -m pytest -ra -q -p no:cacheprovider --timeout=900 --continue-on-collection-errors",
            "source_commits": [],
            "add_only": True,
        },
        "engines": [
            {"name": "simmpi", "path": "vlib/simmpi/mpi4py", "serves_properties": ["C01", "C02", "C03", "C04", "C05", "C06", "C11", "C14", "C15", "C16", "C17", "C18", "C20"],
             "kind_free_text": "simulated mpi4py: threads as ranks, baton scheduler (arrival-order control), collective matcher, logical deadlock detector, per-rank trace"},
            {"name": "runner", "path": "vlib/runner.py", "serves_properties": ALL,
             "kind_free_text": "sharded subprocess case runner, three-valued verdicts, evidence writer, known-findings classifier"},
            {"name": "simh5", "path": "vlib/simh5.py", "serves_properties": ["C05", "C06", "C18"],
             "kind_free_text": "mpio emulation for h5py.File(driver='mpio', comm=...): collective open/create/attrs/close with argument agreement, hyperslab log"},
            {"name": "refmath", "path": "vlib/refmath.py", "serves_properties": ["C07", "C08", "C09", "C10", "C11", "C12", "C13", "C14", "C15", "C16"],
             "kind_free_text": "independent reference mathematics: de Boor, Cox-de Boor (also exact rationals), Gauss-Legendre, FD/Lagrange weights, dense Galerkin assembly"},
            {"name": "stepcount", "path": "vlib/stepcount.py", "serves_properties": ["C12", "C20"],
             "kind_free_text": "sys.monitoring line-event counters / budgets (termination in logical steps)"},
        ],
        "checks": checks,
        "not_applicable": na,
        "notes": "Technique family: runtime monitoring. See DESIGN.md. Exit codes: 0 held, 1 violation, 2 inconclusive.",
    }
    with open(os.path.join(HERE, "MANIFEST.json"), "w") as f:
        json.dump(m, f, indent=1)
    print("claimed:", [c["property_id"] for c in checks])


if __name__ == "__main__":
    main()
