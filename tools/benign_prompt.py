#!/venv/bin/python
"""print the prompt given to an independent sub-agent asked for PROPERTY-PRESERVING changes (false-alarm
probes) for one property: only the property text and its scratch worktree -- nothing from /verif."""
import json
import sys

pid = sys.argv[1]
wt = "/tmp/benign_%s" % pid
for l in open("/verif/properties.jsonl"):
    p = json.loads(l)
    if p["id"] == pid:
        break
print(f"""You are a software engineer maintaining the Python project pyccel/pygyro (a gyrokinetic plasma simulation library: B-spline interpolation, semi-Lagrangian advection, FEM/Fourier quasi-neutrality solver, MPI-distributed layout transposes). A git worktree of the project is at {wt} (work ONLY there; do not touch /repo or any other directory except files you create under {wt} and /tmp/benign_{pid}_*; never read anything under /verif).

You are given ONE behavioural property of the project:

PROPERTY {p['id']}: {p['title']}
Statement: {p['statement']}
Quantified over: {p['quantifier']['text']}
Code it is anchored in: {', '.join(p['anchors']['files'])}

YOUR TASK: produce THREE different, realistic source changes to the library code in {wt} (not to tests) that a maintainer could plausibly make -- refactorings, optimisations, alternative but equally valid design choices -- such that each change
  (1) keeps the property above TRUE for every admissible input/configuration/history (argue this carefully; if in doubt choose another change),
  (2) still imports and still passes the project's existing test-suite, and
  (3) nevertheless changes something OBSERVABLE about the behaviour of the anchored code that a too-strict checker might wrongly object to. Examples of the kind of thing meant: floating-point results that differ at rounding level because sums are re-associated or a mathematically equivalent formula / another (still backward-stable) solver is used; a different but equally valid choice where the property leaves freedom (which of several equally short routes, which of several valid factorisations, which ranks get the larger blocks if the property does not prescribe it, tie-breaks); different internal order of operations, a different number of internal iterations or of internal messages where the property does not fix them; different (but still correct) exception type or message text; extra caching that is correctly invalidated; copying instead of aliasing or the reverse where unobservable through the property; doing the same work with more or fewer intermediate steps; moderately slower or faster algorithms with the same result. Prefer changes that touch the very code paths the property talks about and alter bit patterns, orders, counts or timing -- NOT cosmetic renames or comments. The three changes should be of different kinds.

IMPORTANT: other agents run concurrently on this machine: never use pkill/killall or kill processes by pattern; only stop processes you started yourself, by PID.

ENVIRONMENT FACTS: use /venv/bin/python (3.12; numpy, scipy, h5py(serial), pytest, pyccel installed; no network). The package is installed *editable* pointing at /repo, so to import YOUR modified copy you MUST put the worktree first on the path: run things as `cd {wt} && PYTHONPATH={wt} /venv/bin/python ...` and verify with `python -c "import pygyro; print(pygyro.__file__)"` that it resolves inside {wt}. There is NO MPI library: `import mpi4py.MPI` fails, so modules importing mpi4py cannot be imported directly; the existing test-suite therefore only collects the spline, constants and process-grid tests (8 collection errors are EXPECTED and part of the baseline). If you need to execute MPI-dependent code, write your own small pure-Python stand-in package `mpi4py` (threads or sequential emulation of the few calls used) inside your deliverable directory and put it on PYTHONPATH. The test-suite command is: `cd {wt} && PYTHONPATH={wt} /venv/bin/python -m pytest -q -p no:cacheprovider --timeout=900 --continue-on-collection-errors -x -n 4 2>&1 | tail -5` (expected baseline: 2074 passed, 8 errors; takes several minutes; you may drop -n 4 if xdist is unavailable).

DELIVERABLES, for each change create the directory {wt}/BENIGN/{pid.lower()}_ok_<short_name>/ containing:
  - patch.diff : `git diff` of the library change only (relative to the worktree HEAD; must apply with `git apply` to a clean checkout of the same commit);
  - demo.py plus any helper files: a self-contained script that, run as `cd <tree> && PYTHONPATH=<tree> /venv/bin/python <path>/demo.py`, (a) checks the property itself on a reasonable set of inputs with an independent oracle and a justified tolerance and exits 0 when it holds -- it must exit 0 BOTH with and without the change -- and (b) prints a fingerprint (e.g. a hash of raw output bytes, an iteration count, the chosen alternative) that DIFFERS between the unmodified and the modified tree, showing that the change is observable;
  - meta.json : {{"property": "{pid}", "name": ..., "files_changed": [...], "what_changes_observably": "...", "why_property_still_holds": "...", "what_a_too_strict_checker_might_wrongly_flag": "..."}}.
After preparing each change: apply it, run the full existing test-suite (command above) and your demo, then revert the library change (`git checkout -- .` for tracked files; keep BENIGN/ which is untracked), run the demo again (must still exit 0, different fingerprint). Leave the worktree with NO modifications to tracked files at the end; do not commit anything.

Report back briefly: for each change, the diff, what changes observably, why the property still holds, and the observed outputs of the test-suite run and of the demo with and without the change.""")
