#!/venv/bin/python
"""Run the checks against the independently PROPERTY-PRESERVING changes kept under /verif/benign/<id>/ (patch.diff,
demonstration, meta.json): every check must stay silent (exit 0).  The patch is applied to a scratch copy of /repo under /tmp (removed
afterwards) and the check is pointed at it with VERIF_REPO, so /repo itself is never touched.
Usage: run_benign.py [--tier quick|thorough] [--demo] [id-substring ...]"""
import json
import os
import shutil
import subprocess
import sys
import concurrent.futures as cf

HERE = os.path.dirname(os.path.dirname(os.path.abspath(__file__)))
SEEDED = os.path.join(HERE, "benign")


RELATED = [("pygyro/model/layout.py", ["C01", "C02", "C03", "C04", "C05", "C06", "C17", "C18"]),
           ("pygyro/model/grid.py", ["C02", "C04", "C06", "C17", "C18", "C05"]),
           ("pygyro/model/process_grid.py", ["C20", "C18", "C05"]),
           ("pygyro/splines/", ["C07", "C08", "C09", "C10", "C11", "C12", "C13", "C14", "C15", "C16", "C19", "C05"]),
           ("pygyro/advection/", ["C05", "C10", "C11", "C12", "C13", "C15", "C19"]),
           ("pygyro/poisson/", ["C05", "C14", "C15", "C16", "C19"]),
           ("pygyro/diagnostics/", ["C06", "C17"]),
           ("pygyro/initialisation/", ["C18", "C06", "C20", "C05", "C15", "C19"]),
           ("pygyro/utilities/", ["C18", "C06"]),
           ("fullSimulation.py", ["C05", "C18", "C06"])]
ALL_RELATED = False


def related_checks(d, prop):
    files = []
    for ln in open(os.path.join(d, "patch.diff"), errors="replace"):
        if ln.startswith("+++ b/"):
            files.append(ln[6:].strip())
    out = [prop]
    for f in files:
        for pref, checks in RELATED:
            if f.startswith(pref):
                out += [c for c in checks if c not in out]
    return out


def one(args):
    sid, tier, demo = args
    d = os.path.join(SEEDED, sid)
    meta = json.load(open(os.path.join(d, "meta.json")))
    prop = meta["property"]
    scratch = "/tmp/vbenign_%s" % sid
    shutil.rmtree(scratch, ignore_errors=True)
    subprocess.check_call(["rsync", "-a", "--exclude", ".git", "--exclude", "*.egg-info", "--exclude", "SEED", "--exclude", "BENIGN", "/repo/", scratch + "/"])
    ap = subprocess.run(["git", "apply", "--unsafe-paths", "--directory", scratch, os.path.join(d, "patch.diff")], cwd="/", capture_output=True, text=True)
    if ap.returncode != 0:
        ap = subprocess.run(["patch", "-p1", "-d", scratch, "-i", os.path.join(d, "patch.diff")], capture_output=True, text=True)
    if ap.returncode != 0:
        shutil.rmtree(scratch, ignore_errors=True)
        return sid, prop, "PATCH-FAILED", (ap.stderr or ap.stdout)[-300:]
    out = []
    if demo:
        demo_file = next((f for f in ("demo.py", "demo_test.py") if os.path.exists(os.path.join(d, f))), None)
        if demo_file:
            shutil.copytree(d, os.path.join(scratch, "BENIGN", sid))
            dp = subprocess.run(["/venv/bin/python", os.path.join("BENIGN", sid, demo_file)], cwd=scratch, env=dict(os.environ, PYTHONPATH=scratch), capture_output=True, text=True, timeout=1800)
            out.append("demo exit=%d" % dp.returncode)
    ev = "/tmp/vbenign_ev_%s" % sid
    os.makedirs(ev, exist_ok=True)
    fired = False
    for chk in (related_checks(d, prop) if ALL_RELATED else meta.get("checks", [prop])):
        env = dict(os.environ, VERIF_REPO=scratch, VERIF_EVIDENCE_DIR=ev)
        cp = subprocess.run(["/venv/bin/python", "check.py", chk, "--tier", tier, "--workers", "6"], cwd=HERE, env=env, capture_output=True, text=True)
        keys = [ln.strip() for ln in cp.stdout.splitlines() if ln.strip().startswith("key=")]
        fired |= cp.returncode != 0
        out.append("%s exit=%d %s" % (chk, cp.returncode, keys[0][:170] if keys else ""))
        if cp.returncode != 0 and ALL_RELATED:
            with open("/tmp/benign_related_alarms.txt", "a") as f_:
                f_.write("==== %s %s exit=%d\n%s\n" % (sid, chk, cp.returncode, "\n".join(cp.stdout.splitlines()[-12:])[:3000]))
    shutil.rmtree(ev, ignore_errors=True)
    shutil.rmtree(scratch, ignore_errors=True)
    try:
        with open(os.path.join(d, "silent_related.json" if ALL_RELATED else "silent.json"), "w") as f:
            json.dump({"id": sid, "property": prop, "tier": tier, "silent": not fired, "checks": out}, f, indent=1)
    except OSError:
        pass
    return sid, prop, "ALARM" if fired else "SILENT", " | ".join(out)


def main():
    argv = sys.argv[1:]
    tier = "quick"
    demo = False
    if "--tier" in argv:
        i = argv.index("--tier")
        tier = argv[i + 1]
        del argv[i:i + 2]
    global ALL_RELATED
    if "--related" in argv:
        ALL_RELATED = True
        argv.remove("--related")
    if "--demo" in argv:
        demo = True
        argv.remove("--demo")
    ids = sorted(x for x in os.listdir(SEEDED) if os.path.isdir(os.path.join(SEEDED, x)) and (not argv or any(a in x for a in argv)))
    res = []
    with cf.ThreadPoolExecutor(3) as ex:
        for r in ex.map(one, [(i, tier, demo) for i in ids]):
            print("%-40s %-4s %-8s %s" % r, flush=True)
            res.append(r)
    print("\n%d property-preserving changes: %d silent, %d alarms" % (len(res), sum(r[2] == "SILENT" for r in res), sum(r[2] == "ALARM" for r in res)))


if __name__ == "__main__":
    main()
