#!/venv/bin/python
"""markdown table of the seeded faults kept under /verif/seeded (for DESIGN.md section 9.5)"""
import json
import os

HERE = os.path.dirname(os.path.dirname(os.path.abspath(__file__)))
S = os.path.join(HERE, "seeded")
print("| seeded fault | property | needs to manifest | confirmed (demo fails with / passes without, suite 2074 passed) | caught by (quick tier) |")
print("|---|---|---|---|---|")
for sid in sorted(os.listdir(S)):
    d = os.path.join(S, sid)
    if not os.path.isdir(d):
        continue
    m = json.load(open(os.path.join(d, "meta.json")))
    v = json.load(open(os.path.join(d, "verified.json"))) if os.path.exists(os.path.join(d, "verified.json")) else {}
    det = json.load(open(os.path.join(d, "detected.json"))) if os.path.exists(os.path.join(d, "detected.json")) else {}
    need = str(m.get("needs_to_manifest", ""))
    need = need.replace("\n", " ").replace("|", "/")
    if len(need) > 220:
        need = need[:217] + "..."
    caught = "; ".join(c.split(" :: ")[0] for c in det.get("checks", [])) if det else "?"
    print("| %s | %s | %s | %s | %s |" % (sid, m.get("property"), need, "yes" if v.get("confirmed") else ("?" if not v else "NO"), caught.replace("|", "/")))
