#!/bin/sh
# run every claimed check of MANIFEST.json in the given tier for the given seeds; evidence goes to a scratch dir
# usage: tools/sweep.sh quick "1 2 3" [checks...]
cd "$(dirname "$0")/.." || exit 1
tier=${1:-quick}; seeds=${2:-"1 2 3"}; shift 2 2>/dev/null
checks=${*:-$(/venv/bin/python -c "import json;print(' '.join(c['property_id'] for c in json.load(open('MANIFEST.json'))['checks']))")}
for s in $seeds; do
  for c in $checks; do
    out=$(VERIF_SEED=$s VERIF_EVIDENCE_DIR=/tmp/verif_sweep_ev /venv/bin/python check.py $c --tier $tier 2>&1)
    rc=$?
    echo "seed=$s $c exit=$rc $(echo "$out" | grep -c '^VIOLATION') violations $(echo "$out" | grep -c '^INCONCLUSIVE') inconclusive :: $(echo "$out" | tail -1 | cut -c1-150)"
    if [ $rc -ne 0 ]; then echo "$out" | grep -A1 '^VIOLATION\|^INCONCLUSIVE' | cut -c1-400; fi
  done
done
rm -rf /tmp/verif_sweep_ev
