#!/venv/bin/python
"""print the prompt given to an independent seeding sub-agent for one property (only the property text
and its scratch worktree -- nothing from /verif)."""
import json
import sys

pid = sys.argv[1]
rnd = sys.argv[2] if len(sys.argv) > 2 else ""
wt = "/tmp/seed_%s%s" % (pid, rnd)
for l in open("/verif/properties.jsonl"):
    p = json.loads(l)
    if p["id"] == pid:
        break
print(f"""You are a software-testing researcher. You are given ONE behavioural property of the Python project pyccel/pygyro (a gyrokinetic plasma simulation library: B-spline interpolation, semi-Lagrangian advection, FEM/Fourier quasi-neutrality solver, distributed layout transposes) and your own scratch git worktree of the repository at {wt} (a detached checkout; work ONLY inside that directory; never touch /repo or /verif and do not read anything under /verif).

PROPERTY {p['id']}: {p['title']}
Statement: {p['statement']}
Quantified over: {p['quantifier']['text']}
Code it is anchored in: {', '.join(p['anchors']['files'])}

YOUR TASK: produce up to {'THREE' if rnd else 'TWO'} different, realistic source changes ("seeded faults") to the library code in {wt} (not to tests) such that each change
  (1) makes the property above FALSE for some admissible input/configuration/history,
  (2) still imports/compiles and still passes the project's existing test-suite, and
  (3) is NOT exposed by ordinary use at once: it must need something specific to manifest -- a particular interleaving or arrival order, a multi-step sequence of operations, an unusual but admissible input (e.g. sizes not divisible by the process count, an extent equal to the process count, a shift larger than the domain, a point exactly on a knot, odd number of points, a rarely used option), a fault/crash at a particular point, or two cooperating code sites that each look fine alone. Prefer subtle realistic programmer mistakes (off-by-one, wrong index after a refactoring, local-vs-global index, stale buffer, swapped arguments that coincide in the symmetric case, missing special case, wrong tie-break, boundary comparison < vs <=) over crude sabotage. The changes should exercise different mechanisms.{" In this round favour mechanisms that depend on HISTORY or CONTEXT rather than on a single call: state carried between calls of the same object (caches, scratch buffers, counters, aliased arrays mutated in place), objects shared by two users, the second/third use of something, a rarely used optional argument or non-default option, an admissible but unusual combination (mixed spline degrees, odd sizes, extents equal to the process count, process extents of 1, complex instead of real data, non-default boundary mode), behaviour that differs between ranks of a process grid, or something that depends on the order in which ranks arrive. Avoid the most obvious single-line arithmetic slips." if rnd == "_r2" else (" In this round favour QUIET faults: changes whose effect is numerically small (relative error 1e-4 down to 1e-10, i.e. far above rounding but easy to mistake for it), or confined to a thin set of inputs (one boundary row, one end point, one mode, one rank, one special parameter value such as an exact multiple of the cell size, a zero, an odd/even size, a degenerate extent of 1), or that only changes WHICH of several admissible-looking results is returned (wrong but plausible), or that depends on the order in which ranks reach a collective or on which rank is the root. The demonstration must still separate the fault clearly from floating-point rounding (state the two magnitudes)." if rnd == "_r3" else "")}

IMPORTANT: other agents run concurrently on this machine: never use pkill/killall or kill processes by pattern; only stop processes you started yourself, by PID.

ENVIRONMENT FACTS: use /venv/bin/python (3.12; numpy, scipy, h5py(serial), pytest, pyccel installed; no network). The package is installed *editable* pointing at /repo, so to import YOUR modified copy you MUST put the worktree first: run things as `cd {wt} && PYTHONPATH={wt} /venv/bin/python ...` and assert in your demo that `pygyro.__file__` starts with '{wt}'. The real mpi4py cannot be imported here (no libmpi), so every module that does `from mpi4py import MPI` (layout, grid, advection, poisson, diagnostics, setups, saving, fullSimulation) fails to import unless a stand-in `mpi4py` package is first on sys.path; if your demonstration needs those modules, write your OWN minimal stand-in (e.g. a pure-Python `mpi4py/MPI.py` implementing just what you need: COMM_WORLD of size 1, or a small threads-as-ranks simulation with Alltoall/Allgather/Create_cart/Sub/reduce...) inside your demo directory -- that is fine and expected. The existing test-suite is run with: `cd {wt} && PYTHONPATH={wt} /venv/bin/python -m pytest -q -p no:cacheprovider --timeout=900 --continue-on-collection-errors` (about 90 s; 2074 tests pass on the unmodified tree and 8 test modules fail at collection because of the missing MPI library -- that is the expected baseline; your change must keep exactly the same tests passing).

DELIVERABLES, for each change create the directory {wt}/SEED/{pid.lower()}{rnd}_<short_name>/ containing:
  - patch.diff : `git diff` of the library change only (relative to the worktree HEAD; must apply with `git apply` to a clean checkout of the same commit);
  - demo.py (or demo_test.py) plus any helper files: a self-contained demonstration that exits with status 0 on the UNMODIFIED tree and non-zero (or a failing assertion) WITH the change applied, when run as `cd <tree> && PYTHONPATH=<tree> /venv/bin/python SEED/<dir>/demo.py` (the demo must locate the tree from its own path or the PYTHONPATH, not hard-code {wt});
  - meta.json : {{"property": "{pid}", "name": ..., "files_changed": [...], "what_it_breaks": "...", "needs_to_manifest": "... the specific input / sequence / schedule / configuration ...", "why_tests_still_pass": "...", "commands_run": [...]}}.
After preparing each change: apply it, run the full existing test-suite (command above) and your demo (must fail), then revert the library change (`git checkout -- .` for tracked files; keep SEED/ which is untracked), run your demo again (must pass). Leave the worktree with the library files UNMODIFIED and only the SEED/ directory added. Do not commit.

Report back briefly: for each change, the diff, what it needs to manifest, and the observed outputs of the test-suite run and of the demo with and without the change.""")
