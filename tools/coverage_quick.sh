#!/bin/sh
# One-off analysis (not a check): statement coverage of /repo/pygyro under the quick tier of every check except C19.
# Needs the `coverage` package that is installed in /venv.  Scratch data under /tmp/verif_cov (removed at the end).
cd "$(dirname "$0")/.." || exit 1
D=/tmp/verif_cov; rm -rf $D; mkdir -p $D/site $D/data
cat > $D/site/sitecustomize.py <<'PY'
import os
if os.environ.get("COVERAGE_PROCESS_START"):
    try:
        import coverage
        coverage.process_startup()
    except Exception:
        pass
PY
printf '[run]\nsource = /repo/pygyro\nparallel = True\nconcurrency = thread\ndata_file = %s/data/.coverage\n[report]\nshow_missing = True\n' $D > $D/covrc
for c in C01 C02 C03 C04 C05 C06 C07 C08 C09 C10 C11 C12 C13 C14 C15 C16 C17 C18 C20; do
  COVERAGE_PROCESS_START=$D/covrc PYTHONPATH=$D/site VERIF_EVIDENCE_DIR=$D/ev /venv/bin/python check.py $c --tier quick 2>&1 | tail -1 | cut -c1-100
done
cd $D && /venv/bin/python -m coverage combine --rcfile=$D/covrc >/dev/null 2>&1
/venv/bin/python -m coverage report --rcfile=$D/covrc -m 2>/dev/null | grep -v "test_\|numba_\|pythran\|plotting\|examples\|/tools/\|/utilities/.*slider\|plotter\|conftest\|splines/tests"
rm -rf $D
