#!/venv/bin/python
"""insert the current seeded-fault table into DESIGN.md between the SEEDED-TABLE markers"""
import os
import subprocess
HERE = os.path.dirname(os.path.dirname(os.path.abspath(__file__)))
p = os.path.join(HERE, "DESIGN.md")
s = open(p).read()
a = s.index("<!-- SEEDED-TABLE-BEGIN -->") + len("<!-- SEEDED-TABLE-BEGIN -->")
b = s.index("<!-- SEEDED-TABLE-END -->")
tab = subprocess.check_output(["/venv/bin/python", os.path.join(HERE, "tools", "seed_table.py")], text=True)
tab = "\n".join(l for l in tab.splitlines() if not l.startswith("WARNING"))
open(p, "w").write(s[:a] + "\n" + tab + "\n" + s[b:])
print("table rows:", tab.count("\n") - 1)
s = open(p).read()
if "<!-- BENIGN-TABLE-BEGIN -->" in s:
    a = s.index("<!-- BENIGN-TABLE-BEGIN -->") + len("<!-- BENIGN-TABLE-BEGIN -->")
    b = s.index("<!-- BENIGN-TABLE-END -->")
    tab = subprocess.check_output(["/venv/bin/python", os.path.join(HERE, "tools", "benign_table.py")], text=True)
    tab = "\n".join(l for l in tab.splitlines() if not l.startswith("WARNING"))
    open(p, "w").write(s[:a] + "\n" + tab + "\n" + s[b:])
    print("benign rows:", tab.count("\n") - 1)
