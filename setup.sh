#!/bin/sh
# Offline set-up of the /verif machinery: optional contract libraries from the local
# wheelhouse (git-ignored .deps/), then the self-test of the simulated MPI layer.
cd "$(dirname "$0")" || exit 1
if [ ! -d .deps/icontract ]; then
  /venv/bin/pip install --quiet --no-index --find-links /opt/veriftools/wheels --target .deps icontract deal >/dev/null 2>&1 \
    || echo "note: icontract/deal not installed (contracts fall back to plain wrappers)"
fi
mkdir -p evidence/logs evidence/replay
exec /venv/bin/python -m vlib.simmpi_selftest
