"""C19 -- accelerated kernels = pure-Python reference (translation validation at run time).

prepare() copies the working tree of the repository under test into scratch directories under /tmp,
runs the documented build (`make ACC=pycc LANGUAGE=fortran pycc`; thorough: also LANGUAGE=c) and a
second Fortran build with `-fcheck=all -fsanitize=address,undefined`.  Then

  build   cases: the documented build must succeed and produce the five extension modules;
  diff    cases (monitor 1): a seeded argument stream per kernel family is executed by the
          interpreted source (loaded by file path under private names, so never an extension
          module) in the worker and by the compiled extension modules (loaded under private names
          in a child interpreter, so a crash in native code cannot take the worker down); return
          values and every array argument after the call are compared;
  san     cases (monitor 2): the same streams, plus end-to-end workloads through pygyro's own
          classes, run against the sanitized build in a child interpreter with libasan/libubsan
          preloaded; verdict = sanitizer report blocks in the logs + Fortran runtime errors on
          stderr + death of the child inside a kernel;
  copy    cases: the numba_* / pythran_* source copies are executed as plain Python (stub numba)
          on the same streams and their signatures are compared with the pyccel source.
"""
import ast
import glob
import json
import os
import pickle
import random
import re
import shutil
import subprocess
import sys
import tempfile
import time
import uuid

from vlib import paths
from vlib import c19_kernels as K
from vlib.runner import result, HELD, VIOL, SKIP, INCO

ID = "C19"
LEVEL = "translation_validation"
RULE = ("class = monitor/kernel/argument class: 'diff/<lang>/<module>.<kernel>/<spline space, point class, derivative/"
        "optional-argument variant, coefficient kind | boundary mode | scheme, nulBound, displacement>' for compiled-vs-"
        "interpreted comparisons, 'san/<kernel family or pygyro workload step>' for sanitizer runs, "
        "'copy/<file>.<function>' for numba/pythran source copies, 'build/<language>'; counted when the deciding "
        "monitor compared at least one call (diff, copy), finished at least one sanitized call (san) or saw the build finish")
ASSUMPTIONS = [
    "The documented build is `make ACC=pycc LANGUAGE=fortran PYTHON=<venv python> pycc` (thorough tier: also LANGUAGE=c) run in a scratch copy of the working tree (untracked files included, .git and stale build products excluded) with the pyccel/gfortran/gcc versions installed in this sandbox; other compilers, COMP=intel and other flag sets are not covered.",
    "The reference is the pure-Python source of the same scratch copy, loaded by file path (pyccel.decorators are identity decorators); numpy scalar math (exp, tanh, cos) vs. libm may differ by rounding, hence comparison up to c*eps*scale*kappa (c = 1e3), integers and untouched (input) arrays exactly.",
    "Arguments stay inside the kernels' documented domain or what pygyro's callers can produce: evaluation points inside the closed spline domain (outside only for nu_find_span / nu_basis_funs, the extrapolation branch), spans consistent with the point, float64 C-ordered arrays (one strided 1-D view), int64 for 'int[:]', der in {0,1}, degrees 1-5 (cubic for the uniform kernels), theta domain [0, 2*pi], radial grid ending on the spline domain ends.",
    "Poloidal steps: entries whose inside/outside-the-radial-domain branch is decided within the rounding tolerance of the threshold are excluded (none expected; counted in events['branch_ambiguous_entries']); the implicit scheme is compared with the reference at tol and, when the iteration count is sensitive to tol +- max(1e-3 tol, 2e-13), with those references as well; time steps keep the fixed-point iteration contracting (the unbounded iteration is C12's subject).",
    "general_* kernels with callable parameters are exercised only through their wrappers (both spline families).",
    "Sanitizer monitor: our own extra flags (-O1 -g -fcheck=all -fsanitize=address,undefined) on the Fortran translation only; a failing sanitized build is inconclusive, not a violation; leak checking is off (CPython); the C translation is not sanitized.",
    "numba and pythran are not installed: the numba_*/pythran_* copies are executed as plain Python with a stub numba package (identity njit/jit, recording CC.export) and sys.path arranged as their Makefile targets do; their compiled artefacts (numba AOT modules, pythran extension modules, the '#pythran export' type lists, numba signature strings) are NOT covered.",
    "Copy rule: every public function of the pyccel source must exist in a pythran copy and in a numba copy that declares an ahead-of-time module (numba.pycc.CC), with the same parameter names and order and the same value for every default the pyccel source declares (additional defaults in the copy are compatible); a numba copy without a CC object only feeds @njit helpers to other copies and never replaces the accelerated module, so functions absent from it are reported under coverage.not_in_copy instead (set VERIF_C19_STRICT_COPIES=1 to make them violations).",
    "End-to-end sanitizer workloads (Spline1D/2D, SplineInterpolator1D/2D, FluxSurfaceAdvection.step, VParallelAdvection.step, PoloidalAdvection.step) run on small grids with mpi4py replaced by the simulated package; their numerical results are only checked for finiteness (their mathematics is C07-C12's subject).",
]
REQUIRED_EVENTS = {"comparisons": 1, "kernels_compared": 1, "sanitizer_runs": 1, "sanitized_calls": 1,
                   "copy_functions_compared": 1, "build_ok": 1}
CASE_TIMEOUT = {"quick": 420, "thorough": 1500}

VERIF = paths.VERIF
CHILD = os.path.join(VERIF, "vlib", "c19_child.py")
STUBS = os.path.join(VERIF, "vlib", "c19_stubs")
SAN_FLAGS = "-O1 -g -fPIC -fcheck=all -fsanitize=address,undefined -fno-omit-frame-pointer"
SAN_LIBS = ["/usr/lib/x86_64-linux-gnu/libasan.so.8", "/usr/lib/x86_64-linux-gnu/libubsan.so.1"]
ENV_BASE = "VERIF_C19_BASE"
IGNORE = shutil.ignore_patterns(".git", "__pycache__", "*.so", "*.o", "*.mod", "*.pyc", "__pyccel__*", ".ACC.*",
                                ".lock_acquisition.lock", "*.egg-info", ".pytest_cache", "build", "dist")

_STATE = {"base": None, "status": None}
_CRASH_SIGNALS = (-4, -6, -7, -8, -11)      # SIGILL, SIGABRT, SIGBUS, SIGFPE, SIGSEGV (not our own SIGALRM / SIGKILL)


# ------------------------------------------------------------------------------------------------
# prepare / cleanup


def _pid_alive(pid):
    try:
        os.kill(pid, 0)
    except ProcessLookupError:
        return False
    except PermissionError:
        return True
    return True


def _remove_stale():
    for d in glob.glob(os.path.join(tempfile.gettempdir(), "c19run_*")):
        m = re.match(r"c19run_(\d+)_", os.path.basename(d))
        if m and not _pid_alive(int(m.group(1))):
            shutil.rmtree(d, ignore_errors=True)


def _build_cmd(lang, san):
    cmd = ["make", "ACC=pycc", "LANGUAGE=%s" % lang, "PYTHON=%s" % sys.executable]
    if san:
        cmd.append("FC_FLAGS=%s" % SAN_FLAGS)
    cmd.append("pycc")
    return cmd


def _expected_so(tree):
    out = {}
    for mod, sub in K.MODULES.items():
        hits = sorted(glob.glob(os.path.join(tree, "pygyro", sub, mod + ".*.so")))
        out[mod] = hits[0] if hits else None
    return out


def _scale_return(path, funcname, factor):
    """edit a source file: multiply the value returned by `funcname` by `factor` (located with ast, no text patterns)"""
    import ast
    with open(path) as f:
        src = f.read()
    tree = ast.parse(src)
    fn = next((n for n in ast.walk(tree) if isinstance(n, ast.FunctionDef) and n.name == funcname), None)
    rets = [n for n in ast.walk(fn) if isinstance(n, ast.Return) and n.value is not None] if fn else []
    if not rets:
        return False
    lines = src.splitlines(True)
    for r in sorted(rets, key=lambda n: -n.lineno):
        v = r.value
        expr = ast.get_source_segment(src, v)
        if expr is None:
            return False
        head = lines[v.lineno - 1][:v.col_offset]
        tail = lines[v.end_lineno - 1][v.end_col_offset:]
        lines[v.lineno - 1:v.end_lineno] = [head + "%r * (%s)" % (factor, " ".join(expr.replace("\\\n", " ").split())) + tail]
    with open(path, "w") as f:
        f.write("".join(lines))
    return True


# one incremental stage per source that the advection extension links statically (each in its own copy of the built tree, so that a
# prerequisite missing for ONE of them is not hidden by the rebuild the others trigger)
INCR_STAGES = {
    "incr": ("initialiser_funcs", [("pygyro/initialisation/initialiser_funcs.py", "f_eq", 1.000001)]),
    "incr_cu": ("cubic_uniform_spline_eval_funcs", [("pygyro/splines/cubic_uniform_spline_eval_funcs.py", "cu_eval_spline_1d_scalar", 1.000001),
                                                    ("pygyro/splines/cubic_uniform_spline_eval_funcs.py", "cu_eval_spline_2d_scalar", 1.000001)]),
    "incr_nu": ("spline_eval_funcs", [("pygyro/splines/spline_eval_funcs.py", "nu_eval_spline_1d_scalar", 1.000001),
                                      ("pygyro/splines/spline_eval_funcs.py", "nu_eval_spline_2d_scalar", 1.000001)]),
}


def prepare(tier, seed):
    _remove_stale()
    base = tempfile.mkdtemp(prefix="c19run_%d_" % os.getpid())
    status = {"base": base, "repo": paths.REPO, "builds": {}, "error": None, "tier": tier}
    ctx = {"base": base, "env": {ENV_BASE: base}}
    try:
        os.makedirs(os.path.join(base, "work"))
        wanted = [("fortran", "fortran", False), ("san", "fortran", True)]
        if tier == "thorough":
            wanted.insert(1, ("c", "c", False))
        env = dict(os.environ)
        env["PATH"] = os.path.dirname(sys.executable) + os.pathsep + env.get("PATH", "")
        env.pop("PYTHONPATH", None)
        env.pop("MAKEFLAGS", None)
        env.pop("MFLAGS", None)
        env["PYTHONDONTWRITEBYTECODE"] = "1"
        procs = []
        for name, lang, san in wanted:
            tree = os.path.join(base, name)
            shutil.copytree(paths.REPO, tree, ignore=IGNORE, symlinks=True)
            log = open(os.path.join(base, name + ".build.log"), "w")
            cmd = _build_cmd(lang, san)
            p = subprocess.Popen(cmd, cwd=tree, env=env, stdout=log, stderr=subprocess.STDOUT, stdin=subprocess.DEVNULL)
            procs.append((name, lang, san, tree, log, cmd, p, time.time()))
        deadline = time.time() + (900 if tier == "quick" else 1500)
        for name, lang, san, tree, log, cmd, p, t0 in procs:
            timed_out = False
            try:
                rc = p.wait(max(1.0, deadline - time.time()))
            except subprocess.TimeoutExpired:
                p.kill()
                p.wait()
                rc, timed_out = -9, True
            log.close()
            with open(log.name, errors="replace") as f:
                text = f.read()
            so = _expected_so(tree)
            missing = [m for m, f in so.items() if f is None]
            ok = (rc == 0) and not missing
            errs = [ln for ln in text.splitlines() if re.search(r"error|Error|ERROR|\*\*\*", ln) and "UserWarning" not in ln]
            status["builds"][name] = {"tree": tree, "lang": lang, "sanitized": san, "ok": ok, "rc": rc, "timed_out": timed_out,
                                      "missing_modules": missing, "so": so, "wall": round(time.time() - t0, 1),
                                      "cmd": " ".join(cmd), "errors": errs[:12], "log_tail": text[-1800:]}
        # history: build, edit a source another module links statically, documented build again WITHOUT cleaning
        fb = status["builds"].get("fortran")
        if tier == "thorough" and fb and fb["ok"]:
            runs = []
            for sname, (_mod, edits) in INCR_STAGES.items():
                tree = os.path.join(base, sname)
                shutil.copytree(fb["tree"], tree, symlinks=True)            # copy2: time stamps of sources and products are kept
                runs.append([sname, tree, edits])
            time.sleep(1.1)
            cmd = _build_cmd("fortran", False)
            for run in runs:
                sname, tree, edits = run
                edited = [rel for rel, fn_, fac in edits if _scale_return(os.path.join(tree, rel), fn_, fac)]
                log = open(os.path.join(base, sname + ".build.log"), "w")
                run += [edited, log, time.time(),
                        subprocess.Popen(cmd, cwd=tree, env=env, stdout=log, stderr=subprocess.STDOUT, stdin=subprocess.DEVNULL)]
            for sname, tree, edits, edited, log, t0, p in runs:
                try:
                    rc = p.wait(900)
                    timed_out = False
                except subprocess.TimeoutExpired:
                    p.kill()
                    p.wait()
                    rc, timed_out = -9, True
                log.close()
                with open(log.name, errors="replace") as f:
                    text = f.read()
                so = _expected_so(tree)
                missing = [m for m, f in so.items() if f is None]
                status["builds"][sname] = {"tree": tree, "lang": "fortran", "sanitized": False, "incremental": True, "edited": edited,
                                           "ok": rc == 0 and not missing and len(edited) == len(edits),
                                           "rc": rc, "timed_out": timed_out, "missing_modules": missing, "so": so, "wall": round(time.time() - t0, 1), "cmd": " ".join(cmd),
                                           "errors": [ln for ln in text.splitlines() if re.search(r"error|Error|ERROR|\*\*\*", ln) and "UserWarning" not in ln][:12], "log_tail": text[-1800:]}
    except Exception as e:  # noqa: BLE001  (harness trouble: reported as inconclusive by every case)
        import traceback
        status["error"] = "%s: %s\n%s" % (type(e).__name__, e, traceback.format_exc()[-1200:])
    with open(os.path.join(base, "status.json"), "w") as f:
        json.dump(status, f, indent=1)
    _STATE["base"], _STATE["status"] = base, status
    os.environ[ENV_BASE] = base
    return ctx


def cleanup(ctx):
    base = (ctx or {}).get("base")
    if base and os.path.isdir(base) and os.path.basename(base).startswith("c19run_"):
        shutil.rmtree(base, ignore_errors=True)


def _status():
    if _STATE["status"] is None:
        base = os.environ.get(ENV_BASE)
        if not base or not os.path.exists(os.path.join(base, "status.json")):
            return None
        with open(os.path.join(base, "status.json")) as f:
            _STATE["status"] = json.load(f)
        _STATE["base"] = base
    return _STATE["status"]


# ------------------------------------------------------------------------------------------------
# cases

COPY_FLAVOURS = {
    # flavour -> {module: (relative file, how, import name, sys.path entries relative to the tree / STUBS)}
    "numba": {
        "spline_eval_funcs": ("pygyro/splines/numba_spline_eval_funcs.py", "import", "splines.numba_spline_eval_funcs"),
        "cubic_uniform_spline_eval_funcs": ("pygyro/splines/numba_cubic_uniform_spline_eval_funcs.py", "import", "splines.numba_cubic_uniform_spline_eval_funcs"),
        "initialiser_funcs": ("pygyro/initialisation/numba_initialiser_funcs.py", "import", "initialisation.numba_initialiser_funcs"),
        "poisson_tools": ("pygyro/poisson/numba_poisson_tools.py", "import", "poisson.numba_poisson_tools"),
        "accelerated_advection_steps": ("pygyro/advection/numba_accelerated_advection_steps.py", "import", "advection.numba_accelerated_advection_steps"),
    },
    "pythran": {
        "spline_eval_funcs": ("pygyro/splines/pythran_spline_eval_funcs.py", "path", "c19copy_pythran_spline_eval_funcs"),
        "cubic_uniform_spline_eval_funcs": ("pygyro/splines/pythran_cubic_uniform_spline_eval_funcs.py", "path", "c19copy_pythran_cubic_uniform_spline_eval_funcs"),
        "initialiser_funcs": ("pygyro/initialisation/pythran_initialiser_funcs.py", "path", "c19copy_pythran_initialiser_funcs"),
        "poisson_tools": ("pygyro/poisson/pythran_poisson_tools.py", "path", "c19copy_pythran_poisson_tools"),
    },
    "pythran_deps": {
        "spline_eval_funcs": ("pygyro/advection/pythran_deps/pythran_spline_eval_funcs.py", "import", "pythran_spline_eval_funcs"),
        "cubic_uniform_spline_eval_funcs": ("pygyro/advection/pythran_deps/pythran_cubic_uniform_spline_eval_funcs.py", "import", "pythran_cubic_uniform_spline_eval_funcs"),
        "initialiser_funcs": ("pygyro/advection/pythran_deps/pythran_initialiser_funcs.py", "import", "pythran_initialiser_funcs"),
        "accelerated_advection_steps": ("pygyro/advection/pythran_deps/pythran_accelerated_advection_steps.py", "import", "pythran_accelerated_advection_steps"),
    },
}
E2E = ["splines", "flux", "vpar", "poloidal"]


def gen_cases(tier, seed):
    rng = random.Random("C19/%s/%d" % (tier, seed))
    cases = []
    langs = ["fortran"] + (["c"] if tier == "thorough" else [])
    for name in langs + ["san"]:
        cases.append({"kind": "build", "build": name, "cost": 0.1})
    reps = {"quick": 4, "thorough": 12}[tier]
    col = 2 if tier == "quick" else 3
    for lang in langs:
        for fam, (mod, _g, nq, nt, cost) in K.FAMILIES.items():
            for _ in range(reps):
                cases.append({"kind": "diff", "lang": lang, "family": fam, "n": K.FAMILIES[fam][col], "seed": rng.randrange(1 << 30),
                              "cost": cost * K.FAMILIES[fam][col]})
    if tier == "thorough":
        for sname, (emod, _edits) in INCR_STAGES.items():
            cases.append({"kind": "build", "build": sname, "cost": 0.1})
            for fam in K.FAMILIES_OF_MODULE["accelerated_advection_steps"] + K.FAMILIES_OF_MODULE[emod]:
                for _ in range(4 if sname == "incr" else 2):
                    cases.append({"kind": "diff", "lang": sname, "family": fam, "n": K.FAMILIES[fam][col], "seed": rng.randrange(1 << 30),
                                  "cost": K.FAMILIES[fam][4] * K.FAMILIES[fam][col]})
    for fam, (mod, _g, nq, nt, cost) in K.FAMILIES.items():
        for _ in range(1 if tier == "quick" else 6):
            cases.append({"kind": "san", "family": fam, "n": K.FAMILIES[fam][col], "seed": rng.randrange(1 << 30),
                          "cost": 2 + cost * K.FAMILIES[fam][col]})
    for w in E2E:
        for _ in range(1 if tier == "quick" else 4):
            cases.append({"kind": "san-e2e", "workload": w, "seed": rng.randrange(1 << 30), "cost": 30})
    for flavour, units in COPY_FLAVOURS.items():
        for mod in units:
            for fam in K.FAMILIES_OF_MODULE[mod]:
                for _ in range(1 if tier == "quick" else 4):
                    cases.append({"kind": "copy", "flavour": flavour, "module": mod, "family": fam, "n": K.FAMILIES[fam][col],
                                  "seed": rng.randrange(1 << 30), "cost": 2 * K.FAMILIES[fam][4] * K.FAMILIES[fam][col]})
    return cases


# ------------------------------------------------------------------------------------------------
# reference (interpreted) modules

_REF = {}


def load_ref(tree, pkg="c19ref"):
    """the pyccel-annotated sources of `tree` as pure Python under private names"""
    tree = os.path.realpath(tree)
    if (pkg, tree) in _REF:
        return _REF[(pkg, tree)]
    if any(k[0] == pkg for k in _REF):        # a worker serves cases of several builds (the incremental stage edits a source): one private package per tree
        pkg = "%s_%d" % (pkg, len(_REF))
    import importlib.machinery
    import importlib.util
    import types
    top = types.ModuleType(pkg)
    top.__path__ = []
    sys.modules[pkg] = top
    out = {}
    for mod in K.MOD_ORDER:
        sub = K.MODULES[mod]
        pk = pkg + "." + sub
        if pk not in sys.modules:
            p = types.ModuleType(pk)
            p.__path__ = []
            sys.modules[pk] = p
            setattr(top, sub, p)
        name = pk + "." + mod
        path = os.path.join(tree, "pygyro", sub, mod + ".py")
        loader = importlib.machinery.SourceFileLoader(name, path)
        spec = importlib.util.spec_from_loader(name, loader)
        m = importlib.util.module_from_spec(spec)
        sys.modules[name] = m
        loader.exec_module(m)
        assert os.path.realpath(m.__file__) == os.path.realpath(path) and m.__file__.endswith(".py")
        out[mod] = m
    _REF[(pkg.split("_")[0], tree)] = out
    return out


def public_functions(path):
    """top-level public function names of a source file, in order, with (params, defaults)"""
    with open(path) as f:
        tree = ast.parse(f.read())
    out = {}
    for n in tree.body:
        if isinstance(n, ast.FunctionDef) and not n.name.startswith("_"):
            a = n.args
            names = [x.arg for x in a.posonlyargs + a.args]
            defaults = {}
            for nm, d in zip(names[len(names) - len(a.defaults):], a.defaults):
                try:
                    defaults[nm] = repr(ast.literal_eval(d))
                except Exception:  # noqa: BLE001
                    defaults[nm] = ast.unparse(d)
            takes_callable = any(isinstance(x.annotation, ast.Constant) and isinstance(x.annotation.value, str)
                                 and x.annotation.value.strip().startswith("(") for x in a.args)
            out[n.name] = {"params": names, "defaults": defaults, "callable_params": takes_callable}
    return out


def _src_tree():
    st = _status()
    for name in ("fortran", "san", "c"):
        b = (st or {}).get("builds", {}).get(name)
        if b and os.path.isdir(os.path.join(b["tree"], "pygyro")):
            return b["tree"]
    return paths.REPO


# ------------------------------------------------------------------------------------------------
# child handling


def _spawn(job, env_extra=None, pythonpath=None, preload=False, san_prefix=None):
    base = _STATE["base"] or os.environ.get(ENV_BASE) or tempfile.gettempdir()
    work = os.path.join(base, "work")
    os.makedirs(work, exist_ok=True)
    tag = uuid.uuid4().hex[:12]
    job = dict(job)
    job["out"] = os.path.join(work, tag + ".out")
    job["verif"] = VERIF
    job.setdefault("limit", 1000)
    jobf = os.path.join(work, tag + ".job")
    with open(jobf, "wb") as f:
        pickle.dump(job, f, protocol=4)
    env = {k: v for k, v in os.environ.items() if k not in ("PYTHONPATH", "LD_PRELOAD", "ASAN_OPTIONS", "UBSAN_OPTIONS")}
    env["PYTHONDONTWRITEBYTECODE"] = "1"
    env["OMP_NUM_THREADS"] = "1"
    env["OPENBLAS_NUM_THREADS"] = "1"
    env["PYTHONWARNINGS"] = "ignore"
    if pythonpath:
        env["PYTHONPATH"] = os.pathsep.join(pythonpath)
    if preload:
        env["LD_PRELOAD"] = " ".join(SAN_LIBS)
        env["ASAN_OPTIONS"] = "detect_leaks=0:halt_on_error=0:log_path=%s" % (san_prefix + "asan")
        env["UBSAN_OPTIONS"] = "print_stacktrace=1:halt_on_error=0:log_path=%s" % (san_prefix + "ubsan")
    env.update(env_extra or {})
    errf = open(os.path.join(work, tag + ".err"), "wb")
    p = subprocess.Popen([sys.executable, "-B", CHILD, jobf], cwd=VERIF, env=env, stdin=subprocess.DEVNULL,
                         stdout=subprocess.DEVNULL, stderr=errf)
    return {"proc": p, "job": job, "jobf": jobf, "errf": errf, "tag": tag, "work": work, "t0": time.time()}


def _collect(h, timeout):
    p = h["proc"]
    timed_out = False
    try:
        rc = p.wait(timeout)
    except subprocess.TimeoutExpired:
        p.kill()
        p.wait()
        rc, timed_out = p.returncode, True
    h["errf"].close()
    with open(h["errf"].name, "rb") as f:
        stderr = f.read().decode(errors="replace")
    recs = {"meta": None, "start": {}, "done": {}, "end": None, "bye": None}
    try:
        with open(h["job"]["out"], "rb") as f:
            while True:
                try:
                    r = pickle.load(f)
                except EOFError:
                    break
                except Exception:  # noqa: BLE001  (truncated last record)
                    break
                if r[0] == "meta":
                    recs["meta"] = r[1]
                elif r[0] == "start":
                    recs["start"][r[1]] = (r[2], r[3])
                elif r[0] == "done":
                    recs["done"][r[1]] = r[2]
                elif r[0] == "end":
                    recs["end"] = r[1:]
                elif r[0] == "bye":
                    recs["bye"] = r[1]
    except OSError:
        pass
    for fn in (h["job"]["out"], h["jobf"], h["errf"].name, h["job"].get("calls")):
        try:
            if fn:
                os.remove(fn)
        except OSError:
            pass
    fatal = None
    if recs["bye"] is None:
        started = sorted(set(recs["start"]) - set(recs["done"]))
        if started:
            fatal = started[0]
    return {"rc": rc, "timed_out": timed_out, "stderr": stderr, "recs": recs, "fatal": fatal, "wall": time.time() - h["t0"]}


def _dump_calls(calls):
    base = _STATE["base"] or os.environ.get(ENV_BASE) or tempfile.gettempdir()
    work = os.path.join(base, "work")
    os.makedirs(work, exist_ok=True)
    fn = os.path.join(work, uuid.uuid4().hex[:12] + ".calls")
    with open(fn, "wb") as f:
        pickle.dump(calls, f, protocol=4)
    return fn


def _strip_marks(stderr):
    return "\n".join(ln for ln in stderr.splitlines() if not ln.startswith("@@C19"))


# ------------------------------------------------------------------------------------------------
# reference run with the implicit-scheme guard


def _same_record(a, b):
    if a["exc"] != b["exc"]:
        return False
    for i, x in a["arrs"].items():
        if x.tobytes() != b["arrs"][i].tobytes():
            return False
    return True


class RefTimeout(BaseException):
    """raised by SIGALRM inside the interpreted reference (BaseException: must pass `except Exception`)"""


def _ref_run(refmods, calls, events, limit=240):
    import signal

    def on_alarm(signum, frame):
        raise RefTimeout()
    old = signal.signal(signal.SIGALRM, on_alarm)
    signal.alarm(int(limit))
    try:
        return _ref_run_inner(refmods, calls, events)
    finally:
        signal.alarm(0)
        signal.signal(signal.SIGALRM, old)


def _ref_run_inner(refmods, calls, events):
    recs, alts = [], {}
    for i, call in enumerate(calls):
        fn = getattr(refmods[call["mod"]], call["fn"])
        rec = K.run_call(fn, call)
        recs.append(rec)
        g = call.get("guard") or {}
        ti = g.get("tol_index")
        if ti is not None and rec["exc"] is None:
            t = float(call["args"][ti])
            d = max(1e-3 * t, 2e-13)
            extra = []
            for t2 in (t - d, t + d):
                c2 = dict(call)
                c2["args"] = list(call["args"])
                c2["args"][ti] = t2
                extra.append(K.run_call(fn, c2))
            if not all(_same_record(rec, e) for e in extra):
                alts[i] = extra
                events["iteration_count_sensitive_calls"] = events.get("iteration_count_sensitive_calls", 0) + 1
    return recs, alts


def _compare_streams(calls, ref, alts, got_done, events, masked_counter=True):
    """-> list of (index, verdict, detail) for calls that disagree; counts comparisons"""
    bad = []
    ncmp = 0
    for i, call in enumerate(calls):
        if i not in got_done:
            continue
        got = got_done[i]
        if got.get("missing"):
            bad.append((i, "missing", {"note": "kernel not defined by this implementation"}))
            continue
        verdict, detail = K.compare(call, ref[i], got)
        if verdict != "ok" and verdict != "both-raise" and i in alts:
            for a in alts[i]:
                v2, _ = K.compare(call, a, got)
                if v2 == "ok":
                    verdict, detail = "ok", None
                    events["matched_alternative_iteration_count"] = events.get("matched_alternative_iteration_count", 0) + 1
                    break
        if verdict == "both-raise":
            bad.append((i, "both-raise", detail))
            continue
        ncmp += 1
        if call.get("guard") and ref[i]["exc"] is None:
            _m1, m2 = K.poloidal_masks(call, ref[i])
            events["branch_ambiguous_entries"] = events.get("branch_ambiguous_entries", 0) + int(m2.sum())
        if verdict != "ok":
            bad.append((i, verdict, detail))
    return bad, ncmp


def _kernels_of(calls, done):
    ks = set()
    for i, c in enumerate(calls):
        if i in done:
            ks.add("%s.%s" % (c["mod"], c["fn"]))
            for v in c.get("via", []):
                ks.add("%s.%s" % (c["mod"], v))
    return ks


_KNOWN = {}


def _pick(mismatches, keyfn):
    """one result per case: prefer a mismatch whose mechanism key is NOT an open known finding, so that a new
    mechanism can never hide behind a known one inside the same case"""
    if "keys" not in _KNOWN:
        try:
            from vlib import runner
            _KNOWN["keys"] = set(runner.load_known(ID))
        except Exception:  # noqa: BLE001
            _KNOWN["keys"] = set()
    for i, verdict, detail in mismatches:
        if keyfn(i, verdict) not in _KNOWN["keys"]:
            return i, verdict, detail
    return mismatches[0]


def _others(case, calls, mismatches, keyfn, first_key, who, cap=6):
    """further distinct mechanism keys seen in the same case (turned into results of their own by finalize)"""
    out, seen = [], {first_key}
    for i, verdict, detail in mismatches:
        k = keyfn(i, verdict)
        if k in seen:
            continue
        seen.add(k)
        c = calls[i]
        out.append({"key": k, "what": "%s disagree on %s.%s (%s) for [%s]: %s" % (who, c["mod"], c["fn"], verdict, c["cls"], json.dumps(detail, default=str)[:300]),
                    "witness": _witness(case, calls, i, verdict, detail)})
        if len(out) >= cap:
            break
    return out


def _mech(call):
    """coarse mechanism tag of a call (derivative flags, boundary mode, spline family) for violation keys"""
    return ("/" + call["mech"]) if call.get("mech") else ""


def _witness(case, calls, i, verdict, detail, extra=None):
    c = calls[i]
    w = {"case": case, "call_index": i, "kernel": "%s.%s" % (c["mod"], c["fn"]), "argument_class": c["cls"],
         "kwargs": c["kwargs"], "mismatch": verdict, "detail": detail, "args": K.summarize_args(c)}
    if extra:
        w.update(extra)
    return w


# ------------------------------------------------------------------------------------------------
# case kinds


def _build_case(case):
    st = _status()
    name = case["build"]
    b = st["builds"].get(name)
    if b is None:
        return result(INCO, what="build %r was not attempted: %s" % (name, st.get("error")))
    cls = "build/%s%s%s" % (b["lang"], "-sanitized" if b["sanitized"] else "", "-incremental" if b.get("incremental") else "")
    if b.get("incremental") and not b.get("edited"):
        return result(SKIP, cls=cls, what="incremental build stage: the function to edit was not found in the sources")
    if b["ok"]:
        ev = {"build_ok": 0 if b["sanitized"] else 1, "sanitized_build_ok": 1 if b["sanitized"] else 0, "extension_modules_built": len(b["so"])}
        return result(HELD, cls=cls, events=ev, extra={"wall": b["wall"]})
    why = "timed out" if b["timed_out"] else ("rc=%s" % b["rc"])
    if b["missing_modules"] and b["rc"] == 0:
        why = "finished but did not produce %s" % ", ".join(b["missing_modules"])
    detail = " | ".join(b["errors"][:4]) or b["log_tail"][-400:]
    env_trouble = b["timed_out"] or re.search(r"No space left on device|Cannot allocate memory|Disk quota exceeded", b["log_tail"] or "")
    if env_trouble and not b["sanitized"]:
        return result(INCO, cls=cls, what="documented build could not be completed for environmental reasons (%s): %s" % (why, detail),
                      witness={"cmd": b["cmd"], "log_tail": b["log_tail"]})
    if b["sanitized"]:
        return result(INCO, cls=cls, what="sanitized build (extra flags are ours) failed (%s): %s" % (why, detail),
                      witness={"cmd": b["cmd"], "log_tail": b["log_tail"]})
    return result(VIOL, cls=cls, key="C19:documented-build-fails",
                  what="documented build `%s` failed in a scratch copy of the tree (%s): %s" % (b["cmd"], why, detail),
                  witness={"cmd": b["cmd"], "rc": b["rc"], "missing_modules": b["missing_modules"], "errors": b["errors"],
                           "log_tail": b["log_tail"]})


def _diff_case(case):
    st = _status()
    lang = case["lang"]
    b = st["builds"].get(lang)
    if b is None or not b["ok"]:
        return result(SKIP, what="no %s build to compare with (see the build case)" % lang)
    calls = K.stream(case["family"], case["seed"], case["n"])
    mods = sorted({c["mod"] for c in calls})
    h = _spawn({"mode": "compiled", "build": b["tree"], "modules": K.MOD_ORDER, "calls": _dump_calls(calls)})
    events = {}
    try:
        refmods = load_ref(b["tree"])
        ref, alts = _ref_run(refmods, calls, events)
    except RefTimeout:
        h["proc"].kill()
        _collect(h, 5)
        return result(INCO, what="interpreted reference did not finish the %s stream in time (non-terminating kernel call generated?)" % case["family"])
    except BaseException:
        h["proc"].kill()
        raise
    res = _collect(h, 300 if st.get("tier") == "quick" else 900)
    recs = res["recs"]
    if recs["meta"] is None:
        return result(INCO, what="compiled child did not start: rc=%s %s" % (res["rc"], _strip_marks(res["stderr"])[-300:]))
    for m in mods:
        f = str(recs["meta"]["files"].get(m, ""))
        if f.startswith("LOAD FAILED"):
            return result(VIOL, cls="diff/%s/%s/load" % (lang, m), key="C19:diff:%s:%s:load" % (lang, m),
                          what="extension module %s of the documented %s build cannot be imported: %s" % (m, lang, f),
                          witness={"case": case})
        if not os.path.realpath(f).startswith(os.path.realpath(b["tree"]) + os.sep):
            return result(INCO, what="compiled module %s loaded from %s" % (m, f))
    done = recs["done"]
    bad, ncmp = _compare_streams(calls, ref, alts, done, events)
    kernels = _kernels_of(calls, done)
    cls = sorted({"diff/%s/%s.%s/%s" % (lang, c["mod"], c["fn"], c["cls"]) for i, c in enumerate(calls) if i in done})
    events.update({"comparisons": ncmp, "kernels_compared": len(kernels), "compiled_runs": 1})
    extra = {"kernels": sorted(kernels), "lang": lang}
    # fatal call in the child: crash / hang inside a kernel
    if res["fatal"] is not None:
        i = res["fatal"]
        c = calls[i]
        if ref[i]["exc"] is None:
            kind = "hang" if res["timed_out"] else "crash"
            return result(VIOL, cls=cls, events=events, n_eval=ncmp + 1, extra=extra,
                          key="C19:diff:%s:%s.%s:%s%s" % (lang, c["mod"], c["fn"], kind, _mech(c)),
                          what="compiled (%s) %s.%s %s (child rc=%s) on in-domain arguments [%s] that the interpreted source handles: %s"
                          % (lang, c["mod"], c["fn"], "did not return" if res["timed_out"] else "killed the interpreter", res["rc"], c["cls"],
                             _strip_marks(res["stderr"])[-300:]),
                          witness=_witness(case, calls, i, kind, {"rc": res["rc"], "stderr": _strip_marks(res["stderr"])[-1500:]}))
        return result(INCO, what="both implementations fail on call %d (%s.%s): generator bug" % (i, c["mod"], c["fn"]))
    if recs["bye"] is None and not res["timed_out"] and res["rc"] in _CRASH_SIGNALS and all(r["exc"] is None for r in ref):
        # the interpreter died (SIGSEGV/SIGABRT/...) between kernel calls after the compiled kernels ran a stream the
        # interpreted source executes cleanly: memory corrupted by an earlier call
        return result(VIOL, cls=cls, events=events, n_eval=max(ncmp, 1), extra=extra,
                      key="C19:diff:%s:%s:interpreter-killed-by-signal" % (lang, case["family"]),
                      what="child interpreter running the compiled (%s) kernels on the %s stream was killed by signal %d outside a kernel call "
                           "(memory corrupted by an earlier call?); the interpreted source runs the same stream cleanly: %s"
                      % (lang, case["family"], -res["rc"], _strip_marks(res["stderr"])[-300:]),
                      witness={"case": case, "rc": res["rc"], "calls_done": len(done), "stderr": _strip_marks(res["stderr"])[-1500:]})
    if res["timed_out"] or recs["bye"] is None:
        return result(INCO, events=events, what="compiled child ended early outside a kernel (rc=%s, timeout=%s): %s"
                      % (res["rc"], res["timed_out"], _strip_marks(res["stderr"])[-300:]))
    real = [x for x in bad if x[1] != "both-raise"]
    if real:
        i, verdict, detail = _pick(real, lambda j, v: "C19:diff:%s:%s.%s:%s%s" % (lang, calls[j]["mod"], calls[j]["fn"], v, _mech(calls[j])))
        c = calls[i]
        kf = lambda j, v: "C19:diff:%s:%s.%s:%s%s" % (lang, calls[j]["mod"], calls[j]["fn"], v, _mech(calls[j]))  # noqa: E731
        extra["other_violations"] = _others(case, calls, real, kf, kf(i, verdict), "compiled (%s) and interpreted" % lang)
        return result(VIOL, cls=cls, events=events, n_eval=ncmp, extra=extra,
                      key="C19:diff:%s:%s.%s:%s%s" % (lang, c["mod"], c["fn"], verdict, _mech(c)),
                      what="compiled (%s) and interpreted %s.%s disagree (%s) for [%s]: %s; %d of %d calls of this case disagree"
                      % (lang, c["mod"], c["fn"], verdict, c["cls"], json.dumps(detail, default=str)[:400], len(real), ncmp),
                      witness=_witness(case, calls, i, verdict, detail, {"all_mismatches": [(j, calls[j]["fn"], v) for j, v, _ in real[:20]]}))
    if bad:
        i, verdict, detail = bad[0]
        return result(INCO, events=events, what="both implementations raise on generated call %d %s.%s [%s]: %r (generator bug)"
                      % (i, calls[i]["mod"], calls[i]["fn"], calls[i]["cls"], detail))
    return result(HELD, cls=cls, events=events, n_eval=ncmp, extra=extra)


_SAN_PATTERNS = [
    ("fortran", re.compile(r"Fortran runtime error: (.+)")),
    ("asan", re.compile(r"ERROR: AddressSanitizer:? ([\w-]+)")),
    ("ubsan", re.compile(r"runtime error: (.+)")),
    ("asan", re.compile(r"ERROR: (?:Leak|Undefined\w*)Sanitizer:? ([\w-]+)")),
]


def _norm_kind(tool, msg):
    msg = msg.strip()
    if tool == "asan":
        return "asan-" + msg.lower()
    if tool == "fortran":
        if msg.startswith("Index") and "bound" in msg:
            return "fortran-bounds"
        if "Array bound mismatch" in msg or "bound" in msg:
            return "fortran-bounds"
        return "fortran-" + re.sub(r"[^a-z]+", "-", re.split(r"[\d'(:]", msg.lower())[0]).strip("-")[:30]
    head = re.split(r"[\d'(:]", msg.lower())[0]
    return "ubsan-" + re.sub(r"[^a-z]+", "-", head).strip("-")[:40]


def _scan_reports(text):
    """-> list of (kind, line) report blocks"""
    out = []
    for ln in text.splitlines():
        for tool, pat in _SAN_PATTERNS:
            m = pat.search(ln)
            if m:
                out.append((_norm_kind(tool, m.group(1)), ln.strip()[:300]))
                break
    return out


def _read_san_logs(prefix):
    text = ""
    for fn in sorted(glob.glob(prefix + "*")):
        try:
            with open(fn, errors="replace") as f:
                text += f.read() + "\n"
        except OSError:
            pass
        try:
            os.remove(fn)
        except OSError:
            pass
    return text


def _module_of_report(text):
    m = re.search(r"(\w+)\.f90", text)
    if m:
        return m.group(1)
    m = re.search(r"__(\w+?)_MOD_(\w+)", text)
    if m:
        return "%s.%s" % (m.group(1), m.group(2))
    return None


def _san_verdict(case, res, logs, names, label, events, cls, n_done):
    """common verdict of the sanitizer monitor.  names: {index: kernel or step name}"""
    recs = res["recs"]
    stderr = _strip_marks(res["stderr"])
    reports = _scan_reports(logs) + _scan_reports(stderr)
    grown = sorted(i for i, r in recs["done"].items() if r.get("san", 0) > 0)
    fatal = res["fatal"]
    events.update({"sanitizer_runs": 1, "sanitized_calls": n_done, "sanitizer_reports": len(reports)})
    if reports or (fatal is not None and not res["timed_out"]):
        if fatal is not None:
            where = names.get(fatal, "?")
        elif grown:
            where = names.get(grown[0], "?")
        else:
            where = _module_of_report(logs + stderr) or label
        if label.startswith("e2e"):
            where = _module_of_report(logs + stderr) or where
        kind = reports[0][0] if reports else "abort"
        return result(VIOL, cls=cls, events=events, n_eval=max(n_done, 1), key="C19:sanitizer:%s:%s" % (kind, where),
                      what="sanitized build (-fcheck=all, ASan, UBSan) reports %d problem(s) while running %s (%s): %s"
                      % (max(len(reports), 1), where, label, (reports[0][1] if reports else "child died with rc=%s: %s" % (res["rc"], stderr[-300:]))),
                      witness={"case": case, "where": where, "reports": reports[:10], "fatal_call": fatal, "calls_with_log_growth": grown[:10],
                               "rc": res["rc"], "stderr": stderr[-2500:], "sanitizer_logs": logs[-4000:]})
    rt = (recs["meta"] or {}).get("runtime") or {}
    if recs["meta"] is not None and not (rt.get("asan") and rt.get("ubsan")):
        return result(INCO, events={}, what="sanitizer runtimes were not loaded into the child interpreter (%r)" % rt)
    if recs["meta"] is None or recs["bye"] is None or res["timed_out"]:
        return result(INCO, events={}, what="sanitized child ended early outside a kernel (rc=%s, timeout=%s): %s"
                      % (res["rc"], res["timed_out"], stderr[-400:]))
    return None


def _san_case(case):
    st = _status()
    b = st["builds"].get("san")
    if b is None or not b["ok"]:
        return result(INCO, what="no sanitized build (see the build case)")
    missing = [p for p in SAN_LIBS if not os.path.exists(p)]
    if missing:
        return result(INCO, what="sanitizer runtime not found: %s" % missing)
    base = _STATE["base"]
    prefix = os.path.join(base, "work", "san-%s." % uuid.uuid4().hex[:10])
    events = {}
    if case["kind"] == "san":
        calls = K.stream(case["family"], case["seed"], case["n"])
        h = _spawn({"mode": "compiled", "build": b["tree"], "modules": K.MOD_ORDER, "calls": _dump_calls(calls), "san_logs": prefix},
                   preload=True, san_prefix=prefix)
        res = _collect(h, 300 if st.get("tier") == "quick" else 900)
        logs = _read_san_logs(prefix)
        done = res["recs"]["done"]
        names = {i: "%s.%s" % (c["mod"], c["fn"]) for i, c in enumerate(calls)}
        cls = ["san/%s" % case["family"]] + sorted({"san/%s.%s" % (c["mod"], c["fn"]) for i, c in enumerate(calls) if i in done})
        label = "the %s argument stream" % case["family"]
        v = _san_verdict(case, res, logs, names, label, events, cls, len(done))
        if v is not None:
            return v
        # exceptions raised by the sanitized kernels on in-domain arguments are left to the differential monitor,
        # but a stream in which nothing ran is not evidence
        ran = sum(1 for r in done.values() if r.get("exc") is None)
        if ran == 0:
            return result(INCO, what="no call of the stream completed in the sanitized child")
        events["sanitized_calls"] = ran
        return result(HELD, cls=cls, events=events, n_eval=ran, extra={"san_kernels": sorted(_kernels_of(calls, done))})
    # end-to-end workload through pygyro's classes
    pp = [paths.SIMMPI, b["tree"], VERIF]
    h = _spawn({"mode": "e2e", "build": b["tree"], "workload": case["workload"], "seed": case["seed"], "san_logs": prefix},
               pythonpath=pp, preload=True, san_prefix=prefix)
    res = _collect(h, 360 if st.get("tier") == "quick" else 900)
    logs = _read_san_logs(prefix)
    recs = res["recs"]
    names = {i: nm for i, (_m, nm) in recs["start"].items()}
    cls = sorted({"san/e2e/%s" % nm for i, nm in names.items() if i in recs["done"]})
    v = _san_verdict(case, res, logs, names, "e2e workload %s" % case["workload"], events, cls, len(recs["done"]))
    if v is not None:
        return v
    end = recs["end"]
    info = end[1] if end and len(end) > 1 else {}
    if info.get("exc"):
        # a Python-level exception inside pygyro under the compiled kernels: not a sanitizer finding; the
        # workload could not be completed
        return result(INCO, what="e2e workload %s raised %s: %s" % (case["workload"], info["exc"][0], info["exc"][1]),
                      witness={"traceback": info["exc"][2]})
    events["e2e_operations"] = int(info.get("operations", 0))
    events["sanitized_calls"] = int(info.get("operations", 0))
    return result(HELD, cls=cls, events=events, n_eval=max(1, int(info.get("operations", 0))))


def _sig_mismatch(refsig, params):
    """-> None | description.  refsig: {"params", "defaults"}; params: child's list of dicts"""
    names = [p["name"] for p in params]
    if names != refsig["params"]:
        return "parameters %r differ from the pyccel source's %r" % (names, refsig["params"])
    cd = {p["name"]: p["default"] for p in params if p["has_default"]}
    for nm, dv in refsig["defaults"].items():
        if nm not in cd:
            return "parameter %r has default %s in the pyccel source and none in the copy" % (nm, dv)
        if cd[nm] != dv:
            return "default of %r is %s in the copy and %s in the pyccel source" % (nm, cd[nm], dv)
    return None


def _copy_case(case):
    tree = _src_tree()
    flavour, mod = case["flavour"], case["module"]
    rel, how, name = COPY_FLAVOURS[flavour][mod]
    fpath = os.path.join(tree, rel)
    short = rel.split("pygyro/")[-1]
    short = short.split("/", 1)[1] if flavour != "pythran_deps" else "pythran_deps/" + os.path.basename(rel)
    refsigs = public_functions(os.path.join(tree, "pygyro", K.MODULES[mod], mod + ".py"))
    if not os.path.exists(fpath):
        return result(VIOL, cls="copy/%s" % short, key="C19:copy-mismatch:%s:<file>" % short,
                      what="source copy %s does not exist" % rel, witness={"case": case})
    if flavour == "numba":
        syspath = [STUBS, os.path.join(tree, "pygyro")]
    elif flavour == "pythran_deps":
        syspath = [os.path.dirname(fpath)]
    else:
        syspath = []
    calls = K.stream(case["family"], case["seed"], case["n"])
    unit = {"file": fpath, "how": how, "name": name, "syspath": syspath}
    h = _spawn({"mode": "copy", "units": {mod: unit}, "calls": _dump_calls(calls)})
    events = {}
    try:
        refmods = load_ref(tree)
        ref, alts = _ref_run(refmods, calls, events)
    except RefTimeout:
        h["proc"].kill()
        _collect(h, 5)
        return result(INCO, what="interpreted reference did not finish the %s stream in time (non-terminating kernel call generated?)" % case["family"])
    except BaseException:
        h["proc"].kill()
        raise
    res = _collect(h, 300 if (_status() or {}).get("tier") == "quick" else 900)
    recs = res["recs"]
    meta = recs["meta"]
    if meta is None:
        return result(INCO, what="copy child did not start: rc=%s %s" % (res["rc"], _strip_marks(res["stderr"])[-300:]))
    if mod in meta["load_error"]:
        return result(VIOL, cls="copy/%s" % short, key="C19:copy-mismatch:%s:<import>" % short,
                      what="source copy %s cannot be imported as plain Python (stub numba, Makefile sys.path): %s"
                      % (rel, meta["load_error"][mod].splitlines()[0]), witness={"case": case, "error": meta["load_error"][mod]})
    sigs = meta["signatures"][mod]
    aot = bool(meta.get("aot", {}).get(mod))
    strict = os.environ.get("VERIF_C19_STRICT_COPIES") == "1"
    must_define_all = (flavour != "numba") or aot or strict
    not_in_copy, sig_bad = [], []
    for fn, rs in refsigs.items():
        if fn not in sigs:
            not_in_copy.append(fn)
            continue
        why = _sig_mismatch(rs, sigs[fn])
        if why:
            sig_bad.append((fn, why))
    extra = {"copy_file": short, "not_in_copy": not_in_copy, "aot_module": aot,
             "extra_in_copy": sorted(set(sigs) - set(refsigs))}
    if not_in_copy and must_define_all:
        fn = not_in_copy[0]
        return result(VIOL, cls="copy/%s" % short, extra=extra, key="C19:copy-mismatch:%s:%s" % (short, fn),
                      what="%s does not define %s (public function of %s.py)%s" % (rel, ", ".join(not_in_copy), mod,
                                                                                 "" if flavour != "numba" else " although it declares an ahead-of-time module"),
                      witness={"case": case, "missing": not_in_copy})
    if sig_bad:
        fn, why = sig_bad[0]
        return result(VIOL, cls="copy/%s" % short, extra=extra, key="C19:copy-mismatch:%s:%s" % (short, fn),
                      what="%s: signature of %s is not compatible: %s" % (rel, fn, why), witness={"case": case, "all": sig_bad})
    done = dict(recs["done"])
    # calls to functions legitimately absent from the copy are not comparisons
    skipped = 0
    for i, c in enumerate(calls):
        if i in done and done[i].get("missing") and c["fn"] in not_in_copy:
            del done[i]
            skipped += 1
    if res["fatal"] is not None or recs["bye"] is None:
        return result(INCO, what="copy child ended early (rc=%s, timeout=%s): %s" % (res["rc"], res["timed_out"], _strip_marks(res["stderr"])[-300:]))
    bad, ncmp = _compare_streams(calls, ref, alts, done, events)
    funcs = _kernels_of(calls, done)
    cls = sorted({"copy/%s.%s" % (short, k.split(".", 1)[1]) for k in funcs})
    events.update({"copy_comparisons": ncmp, "copy_functions_compared": len(funcs), "copy_signatures_checked": len(refsigs) - len(not_in_copy),
                   "copy_calls_skipped_not_in_copy": skipped})
    extra["copy_functions"] = sorted("%s:%s" % (short, k.split(".", 1)[1]) for k in funcs)
    real = [x for x in bad if x[1] != "both-raise"]
    if real:
        i, verdict, detail = _pick(real, lambda j, v: "C19:copy-mismatch:%s:%s%s" % (short, calls[j]["fn"], _mech(calls[j])))
        c = calls[i]
        kf = lambda j, v: "C19:copy-mismatch:%s:%s%s" % (short, calls[j]["fn"], _mech(calls[j]))  # noqa: E731
        extra["other_violations"] = _others(case, calls, real, kf, kf(i, verdict), "%s (plain Python) and the pyccel source" % rel)
        return result(VIOL, cls=cls, events=events, n_eval=ncmp, extra=extra, key="C19:copy-mismatch:%s:%s%s" % (short, c["fn"], _mech(c)),
                      what="%s run as plain Python and the pyccel source disagree on %s (%s) for [%s]: %s"
                      % (rel, c["fn"], verdict, c["cls"], json.dumps(detail, default=str)[:400]),
                      witness=_witness(case, calls, i, verdict, detail))
    if bad:
        i, verdict, detail = bad[0]
        return result(INCO, events=events, what="both implementations raise on generated call %d %s [%s]: %r" % (i, calls[i]["fn"], calls[i]["cls"], detail))
    if ncmp == 0:
        return result(SKIP, cls=[], events=events, extra=extra, what="no function of this family is defined in %s" % short)
    return result(HELD, cls=cls, events=events, n_eval=ncmp, extra=extra)


def run_case(case):
    st = _status()
    if st is None:
        return result(INCO, what="C19 prepare() did not run (no %s)" % ENV_BASE)
    if st.get("error"):
        return result(INCO, what="C19 prepare() failed: %s" % st["error"][:500])
    kind = case["kind"]
    if kind == "build":
        return _build_case(case)
    if kind == "diff":
        return _diff_case(case)
    if kind in ("san", "san-e2e"):
        return _san_case(case)
    if kind == "copy":
        return _copy_case(case)
    raise ValueError(kind)


# ------------------------------------------------------------------------------------------------
# cross-case verdict and evidence


def _enumerate_kernels():
    out = {}
    for mod, sub in K.MODULES.items():
        try:
            out[mod] = public_functions(os.path.join(paths.REPO, "pygyro", sub, mod + ".py"))
        except OSError:
            out[mod] = {}
    return out


def _callers_of_kernels():
    """{function name: {module.function that calls it by name}} over the five accelerated modules (ast, no import)"""
    import ast
    out = {}
    for mod, sub in K.MODULES.items():
        try:
            with open(os.path.join(paths.REPO, "pygyro", sub, mod + ".py")) as f:
                tree = ast.parse(f.read())
        except (OSError, SyntaxError):
            continue
        for fn in tree.body:
            if isinstance(fn, ast.FunctionDef):
                for n in ast.walk(fn):
                    if isinstance(n, ast.Call) and isinstance(n.func, ast.Name):
                        out.setdefault(n.func.id, set()).add("%s.%s" % (mod, fn.name))
    return out


def finalize(tier, seed, cases, results):
    """every public function of the five modules must have been compared (per language) -- a kernel added
    to the sources without an argument generator makes the run inconclusive, not silently green"""
    out = []
    for c, r in zip(cases, results):
        for o in ((r or {}).get("extra") or {}).get("other_violations", []) or []:
            x = result(VIOL, key=o["key"], what=o["what"], witness=o.get("witness"), n_eval=0)
            x["case"] = c
            out.append(x)
    allk = {"%s.%s" % (m, f) for m, fs in _enumerate_kernels().items() for f in fs}
    by_lang = {}
    for c, r in zip(cases, results):
        if r and c.get("kind") == "diff" and r.get("status") in (HELD, VIOL):
            by_lang.setdefault(c["lang"], set()).update((r.get("extra") or {}).get("kernels", []))
    callers = _callers_of_kernels()
    for lang, seen in by_lang.items():
        if lang not in ("fortran", "c"):
            continue                      # the incremental-build stage only re-compares the modules that depend on the edited source
        lost = sorted(allk - seen)
        # a kernel without an argument generator of its own still counts as compared when it is called (by name) from
        # kernels that were compared directly: the compiled callers are generated from the same source
        indirect = {k: sorted(c for c in callers.get(k.split(".", 1)[1], ()) if c in seen) for k in lost}
        for k, via in indirect.items():
            if via:
                out.append(result(HELD, cls="diff/%s/compared-through-callers" % lang, events={"kernels_compared_through_callers": 1}, n_eval=0,
                                  extra={"kernel": k, "callers": via[:6]}))
        lost = [k for k in lost if not indirect[k]]
        if lost:
            out.append(result(INCO, what="kernels never compared for the %s build: %s" % (lang, ", ".join(lost)),
                              extra={"case": {"kind": "finalize", "lang": lang}}))
        else:
            out.append(result(HELD, cls="diff/%s/all-%d-exported-kernels" % (lang, len(allk)), events={"kernel_sets_complete": 1}, n_eval=0))
    return out


def coverage_extra(tier, cases, results):
    kernels, cmp_total, copies, not_in_copy, san_k = set(), 0, set(), {}, set()
    builds = {}
    for c, r in zip(cases, results):
        if not r:
            continue
        ex = r.get("extra") or {}
        ev = r.get("events") or {}
        if c.get("kind") == "diff":
            kernels.update(ex.get("kernels", []))
            cmp_total += ev.get("comparisons", 0)
        elif c.get("kind") == "copy":
            copies.update(ex.get("copy_functions", []))
            cmp_total += ev.get("copy_comparisons", 0)
            if ex.get("not_in_copy"):
                not_in_copy[ex["copy_file"]] = ex["not_in_copy"]
        elif c.get("kind") == "san":
            san_k.update(ex.get("san_kernels", []))
        elif c.get("kind") == "build":
            builds[c["build"]] = {"status": r.get("status"), "wall_s": ex.get("wall")}
    allk = sorted("%s.%s" % (m, f) for m, fs in _enumerate_kernels().items() for f in fs)
    return {"programs": len(kernels), "disagreements_checked": int(cmp_total),
            "kernels_compared": sorted(kernels), "kernels_exported": allk,
            "kernels_not_compared": sorted(set(allk) - kernels),
            "kernels_sanitized": sorted(san_k),
            "copy_functions_compared": sorted(copies), "not_in_copy": not_in_copy, "builds": builds,
            "not_covered": ["numba AOT artefacts", "pythran compiled artefacts", "COMP=intel", "sanitized C translation"]}
