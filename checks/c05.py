"""C05 -- simulation results do not depend on the process decomposition.

Monitor: the global field assembled from all simulated ranks after every stage (initial f in the
three starting layouts; flux-surface, v-parallel, poloidal advection; density; modes; solve;
potential; every stage of a complete Strang step) is compared with the serial (1 rank) run of the
same stage on the same data.  Two kinds of runs: (a) isolation runs through the driver-like stepper on
RANDOM (not smooth, not separable) global data with forced process-grid shapes (1,P), (P,1), (a,b);
(b) the real driver fullSimulation.main() under the simulated MPI + mpio emulation, comparing the
checkpoint files written by P ranks with those written by one rank.
"""
import os
import random
import shutil
import tempfile

import numpy as np

from vlib import paths
paths.setup()
from vlib.runner import result, HELD, VIOL, SKIP, INCO  # noqa: E402
from vlib import physgen as pg  # noqa: E402

ID = "C05"
LEVEL = "exploration"
NEEDS_SIMMPI = True
RULE = ("grids [8,8,8,8], [7,9,8,10], [10,8,9,7], [9,7,8,8]; process counts 1-8 (12 thorough) with pygyro's own process grid "
        "and forced shapes (1,P),(P,1),(a,b); rotational transform 0 and 0.8; explicit poloidal scheme; random perturbation "
        "of the equilibrium (20%) as global state; seeded arrival orders.  Stages observed: initial f per starting layout, "
        "rho, modes, phi_hat, phi, and the 10 stages of the Strang step (predictor flux/vpar/pol/phi, corrector flux/vpar/pol/"
        "vpar/flux/phi); plus the checkpoints of the real driver after 1-2 steps.  A stage counts for a class only if the "
        "dimension whose parameter it uses is really distributed in that run.  A class is (stage, which of r|z|v split, iota "
        "class) / (driver, P, steps).")
ASSUMPTIONS = ["ride-along contract: post-condition of every real-valued SplineInterpolator1D.compute_interpolant call during the stage runs (vlib/contracts.py)", "simulated MPI and mpio emulation (self-tested)", "tolerance 1000*eps*scale between decompositions (identical per-slice arithmetic expected)"]
REQUIRED_EVENTS = {"stage_fields_compared": 1, "init_fields_compared": 1, "driver_files_compared": 1, "r_split_runs": 1, "z_split_runs": 1, "contract_evaluations": 1}
CASE_TIMEOUT = {"quick": 1200, "thorough": 3000}
TOLC = 1000.0


def gen_cases(tier, seed):
    rng = random.Random(50505 + seed)
    cases = []
    shapes = [[8, 8, 8, 8], [7, 9, 8, 10], [10, 8, 9, 7], [9, 7, 8, 8]]
    forced = [(1, 2), (2, 1), (2, 2), (1, 3), (3, 1), (1, 4), (4, 1), (2, 3), (3, 2), (4, 2), (2, 4)]
    if tier == "thorough":
        forced += [(1, 6), (6, 1), (3, 3), (5, 1), (1, 5), (3, 4), (4, 3), (2, 6), (6, 2)]
    n = 12 if tier == "quick" else 500
    for k in range(n):
        npts = shapes[k % len(shapes)]
        nprocs = forced[k % len(forced)]
        cases.append({"kind": "stages", "npts": npts, "nprocs": list(nprocs), "iota": [0.0, 0.8][k % 2], "sched": rng.randrange(1 << 30), "seed": rng.randrange(1 << 30), "cost": 4000})
    # one point per process in a distributed direction (extent equal to the process count)
    for nprocs in ([(1, 8), (8, 1)] if tier == "quick" else [(1, 8), (8, 1), (2, 8), (8, 2), (1, 7), (7, 1)]):
        npts = [8, 8, 8, 8] if 8 in nprocs else [7, 8, 7, 7]
        cases.append({"kind": "stages", "npts": npts, "nprocs": list(nprocs), "iota": 0.8 if nprocs[0] > 1 else 0.0, "sched": rng.randrange(1 << 30), "seed": rng.randrange(1 << 30), "cost": 9000})
    for k in range(6 if tier == "quick" else 240):
        cases.append({"kind": "init", "npts": shapes[k % len(shapes)], "P": rng.choice([2, 3, 4, 6] if tier == "quick" else [2, 3, 4, 5, 6, 8, 12]),
                      "layout": ["flux_surface", "v_parallel", "poloidal"][k % 3], "seed": rng.randrange(1 << 30), "cost": 300})
    for k in range(4 if tier == "quick" else 72):
        cases.append({"kind": "driver", "npts": [8, 8, 8, 8], "P": [2, 4, 3, 6][k % 4] if tier == "quick" else rng.choice([2, 3, 4, 6, 8]), "steps": 1 + k % 2, "iota": [0.0, 0.8][(k // 2) % 2],
                      "seed": rng.randrange(1 << 30), "cost": 6000})
    return cases


def run_case(case):
    if case["kind"] == "stages":
        return _stages(case)
    if case["kind"] == "init":
        return _init(case)
    return _driver(case)


def _global_state(c, npts, seed):
    import pygyro.splines as spl
    eta, bs, breaks = pg.make_space(spl, c.npts, c.splineDegrees, pg.std_domain(c))
    rs = np.random.RandomState(seed % (1 << 31))
    R, TH, Z, V = np.meshgrid(*eta, indexing="ij")
    return pg.f_eq(R, V, c) * (1 + 0.2 * rs.standard_normal(npts)), eta


def _stages(case):
    from mpi4py import MPI
    from vlib import simrun, driverlike
    from pygyro.advection import advection as adv
    paths.assert_repo(adv)
    npts, nprocs, iota = case["npts"], case["nprocs"], case["iota"]
    if not simrun.admissible(npts, nprocs) or nprocs[0] > npts[1]:
        return result(SKIP, what="process grid not admissible")
    # a third of the runs: the rotational transform is a PROFILE supplied through the constants' iota(r) hook (sheared field), whatever
    # the scalar iotaVal says -- every operator has to take it from the hook at the surface's own radius
    profile = case["seed"] % 3 == 1
    kw = {"iota_fn": (lambda r: 0.5 + 0.07 * np.asarray(r, dtype=float))} if profile else {}
    c = simrun.small_constants(npts, iota=iota, seed=case["seed"] % 1000, dt=1, **kw)
    F, eta = _global_state(c, npts, case["seed"])
    from vlib import contracts
    contracts.install()
    contracts.reset()

    def make_prog(grid):
        def prog(rank):
            comm = MPI.COMM_WORLD
            if case["seed"] % 3 == 0:
                comm = comm.Split(0, -rank)      # a communicator numbered in the opposite order to the world communicator
            sim = simrun.Sim(comm, c, grid, layout='v_parallel', save=True)
            sim.scatter(sim.f, F)
            st = driverlike.Stepper(sim, chi=0)
            obs = []
            st.compute_phi(observe=lambda name, g: obs.append(("qn:" + name, sim.block(g))))
            st.step(observe=lambda name, g: obs.append((name, sim.block(g))))
            return obs
        return prog

    ws = MPI.run_world(1, make_prog([1, 1]), timeout=1000)
    wp = MPI.run_world(nprocs[0] * nprocs[1], make_prog(nprocs), schedule="random", seed=case["sched"], timeout=1100)
    ev = dict(wp.events)
    wit = {"case": case}
    split = ("r" if nprocs[0] > 1 else "") + ("z" if nprocs[1] > 1 else "")
    ic = "iota(r)-profile" if profile else ("iota0" if iota == 0 else "iota!=0")
    for w, who in ((ws, "serial"), (wp, "parallel")):
        err = w.first_error()
        if err is not None:
            wit["traceback"] = (w.tracebacks[err[0]] or "")[-2500:]
            return result(VIOL, cls=["stages/exception"], events=ev, key="C05:exception:%s:%s" % (who, type(err[1]).__name__),
                          what="%s run on grid %r: rank %d raised %r" % (who, nprocs if who == "parallel" else [1, 1], err[0], err[1]), witness=wit)
    ev.update({"stage_fields_compared": 0, "r_split_runs": int(nprocs[0] > 1), "z_split_runs": int(nprocs[1] > 1), "init_fields_compared": 0, "driver_files_compared": 0})
    ev["contract_evaluations"] = contracts.STATE["evaluations"]
    if contracts.STATE["violations"]:
        return result(VIOL, cls=["stages/ride-along-contract"], events=ev, key="C05:ride-along/interpolant-postcondition",
                      what="during the Strang step on grid %r: %s" % (nprocs, contracts.STATE["violations"][0]), witness=dict(wit, contract=contracts.STATE["violations"]))
    cls = set()
    nst = len(ws.results[0])
    # which dimension's parameter does a stage use?  (a stage counts only if that dimension is really split)
    uses = {"flux": "rv", "vpar": "rz", "pol": "vz", "rho": "r", "modes": "", "phi_hat": "", "phi": "rz", "qn": "r"}
    for i in range(nst):
        name = ws.results[0][i][0]
        shape = tuple(npts) if len(ws.results[0][i][1][0]) == 4 else tuple(npts[:3])
        Gs, cs = simrun.assemble([ws.results[0][i][1]], shape)
        Gp, cp = simrun.assemble([r[i][1] for r in wp.results], shape)
        if not (cp == 1).all():
            return result(VIOL, cls=sorted(cls), events=ev, key="C05:coverage", what="stage %s: blocks of the ranks do not tile the grid" % name, witness=wit)
        scale = float(np.abs(Gs).max()) + 1e-300
        e = float(np.abs(Gp - Gs).max())
        ev["stage_fields_compared"] += 1
        tag = name.split(":")[-1].rstrip("12")
        need = uses.get(tag, "")
        # in layout poloidal v is split over direction 0 and z over direction 1; flux_surface: r over 0, v over 1
        really = ("r" in need and nprocs[0] > 1) or ("z" in need and nprocs[1] > 1) or ("v" in need and (nprocs[0] > 1 or nprocs[1] > 1)) or need == ""
        if really:
            cls.add("stage-%s/split-%s/%s" % (name, split, ic))
        if not e <= TOLC * 2.2e-16 * scale:
            idx = np.unravel_index(int(np.abs(Gp - Gs).argmax()), Gs.shape)
            return result(VIOL, cls=sorted(cls), events=ev, key="C05:stage-%s/split-%s" % (name.split(":")[-1], split),
                          what="stage '%s' on process grid %r (iota=%g) differs from the serial run by %.3g (scale %.3g) at global index %r"
                          % (name, nprocs, iota, e, scale, tuple(int(x) for x in idx)), witness=wit)
    return result(HELD, cls=sorted(cls), events=ev, n_eval=ev["stage_fields_compared"], sched=str(hash(wp.arrival_signature())))


def _init(case):
    from mpi4py import MPI
    from vlib import simrun, driver_run as dr
    from pygyro.initialisation import setups
    from pygyro.model.process_grid import compute_2d_process_grid
    paths.assert_repo(setups)
    npts, P, layout = case["npts"], case["P"], case["layout"]
    try:
        compute_2d_process_grid(npts, P)
    except RuntimeError:
        return result(SKIP, what="no process grid for P=%d" % P)
    tmp = tempfile.mkdtemp(prefix="verif_c05_")
    try:
        cfile = os.path.join(tmp, "c.json")
        d = dr.write_constants(cfile, npts, dt=2, iota=0.8 if case["seed"] % 2 else 0.0, extra={"m": 1 + case["seed"] % 4, "n": case["seed"] % 3})

        variant = ["world", "reversed", "plot-rank-first", "plot-rank-last"][case["seed"] % 4]

        def prog(rank):
            grid, c, t = setups.setupCylindricalGrid(layout, constantFile=cfile, comm=MPI.COMM_WORLD)
            return simrun.Sim.block(grid), (c.rp, c.deltaR, c.R0, c.m, c.n, c.eps, c.CN0, c.kN0, c.deltaRN0, c.CTi, c.kTi, c.deltaRTi)

        def progp(rank):
            world = MPI.COMM_WORLD
            if variant == "reversed":
                grid, c, t = setups.setupCylindricalGrid(layout, constantFile=cfile, comm=world.Split(0, -rank))
            elif variant.startswith("plot"):
                # one additional, data-less plotting process: the workers are numbered differently in the world and in their own communicator
                grid, c, t = setups.setupCylindricalGrid(layout, constantFile=cfile, comm=world, plotThread=True, drawRank=0 if variant == "plot-rank-first" else world.Get_size() - 1)
            else:
                grid, c, t = setups.setupCylindricalGrid(layout, constantFile=cfile, comm=world)
            return simrun.Sim.block(grid), (c.rp, c.deltaR, c.R0, c.m, c.n, c.eps, c.CN0, c.kN0, c.deltaRN0, c.CTi, c.kTi, c.deltaRTi)
        ws = MPI.run_world(1, prog, timeout=300)
        wp = MPI.run_world(P + (1 if variant.startswith("plot") else 0), progp, schedule="random", seed=case["seed"], timeout=300)
    finally:
        shutil.rmtree(tmp, ignore_errors=True)
    ev = dict(wp.events)
    wit = {"case": case}
    for w, who in ((ws, "serial"), (wp, "parallel")):
        err = w.first_error()
        if err is not None:
            wit["traceback"] = (w.tracebacks[err[0]] or "")[-2500:]
            return result(VIOL, cls=["init/exception"], events=ev, key="C05:init-exception:%s" % type(err[1]).__name__, what="%s set-up (P=%d, layout %s): rank %d raised %r" % (who, P, layout, err[0], err[1]), witness=wit)
    Gs, _ = simrun.assemble([ws.results[0][0]], tuple(npts))
    Gp, cov = simrun.assemble([r[0] for r in wp.results if r[0][3].size > 0], tuple(npts))
    ev.update({"init_fields_compared": 1, "stage_fields_compared": 0, "driver_files_compared": 0, "r_split_runs": 0, "z_split_runs": 0})
    if not (cov == 1).all() or not np.array_equal(Gs, Gp):
        return result(VIOL, cls=["init/%s" % layout], events=ev, key="C05:initial-distribution/%s" % layout,
                      what="initial f in layout %s on %d ranks differs from the serial one by %.3g" % (layout, P, float(np.abs(Gs - Gp).max())), witness=wit)
    # and both equal the documented formula evaluated at GLOBAL coordinates
    import pygyro.splines as spl
    rp, deltaR, R0, m, n, eps = ws.results[0][1][:6]
    c = pg.make_constants(**{k: v for k, v in d.items() if k not in ("iotaVal",)})
    eta, _bs, _br = pg.make_space(spl, npts, [3, 3, 3, 3], pg.std_domain(c))
    R, TH, Z, V = np.meshgrid(*eta, indexing="ij")
    ref = pg.f_eq(R, V, c) * (1 + eps * np.exp(-(R - rp) ** 2 / deltaR) * np.cos(m * TH + n * Z / R0))
    if not np.all(np.abs(Gp - ref) <= 200 * 2.2e-16 * np.abs(ref).max()):
        return result(VIOL, cls=["init/%s" % layout], events=ev, key="C05:initial-distribution-formula/%s" % layout,
                      what="initial f (layout %s, P=%d) differs from f_eq*(1+eps*perturbation) at global coordinates by %.3g" % (layout, P, float(np.abs(Gp - ref).max())), witness=wit)
    return result(HELD, cls=["init/%s/P%d/%s" % (layout, P, variant)], events=ev, n_eval=1)


def _driver(case):
    from vlib import driver_run as dr
    P, steps = case["P"], case["steps"]
    tmp = tempfile.mkdtemp(prefix="verif_c05_")
    ev = {"driver_files_compared": 0, "stage_fields_compared": 0, "init_fields_compared": 0, "r_split_runs": 0, "z_split_runs": 0}
    wit = {"case": case}
    cls = ["driver/P%d/steps%d/%s" % (P, steps, "iota0" if case["iota"] == 0 else "iota!=0")]
    try:
        cfile = os.path.join(tmp, "c.json")
        dr.write_constants(cfile, case["npts"], dt=2, iota=case["iota"])
        outs = {}
        for p in (1, P):
            folder = os.path.join(tmp, "out%d" % p)
            w = dr.run_driver(p, [2 * steps, 100000, "-c", cfile, "-f", folder, "-s", 1], os.path.join(tmp, "cwd%d" % p), seed=case["seed"] + p, timeout=1100)
            err = w.first_error()
            if err is not None:
                wit["traceback"] = (w.tracebacks[err[0]] or "")[-2500:]
                return result(VIOL, cls=cls, events=ev, key="C05:driver-exception:%s" % type(err[1]).__name__, what="driver on %d ranks: rank %d raised %r" % (p, err[0], err[1]), witness=wit)
            if p == P:
                for k, v in w.events.items():
                    ev[k] = ev.get(k, 0) + v
            outs[p] = folder
        names = sorted(f for f in os.listdir(outs[1]) if f.endswith(".h5"))
        if names != sorted(f for f in os.listdir(outs[P]) if f.endswith(".h5")) or len(names) < 2 * (steps + 1):
            return result(VIOL, cls=cls, events=ev, key="C05:driver-files", what="checkpoint files differ: %r vs %r" % (names, sorted(os.listdir(outs[P]))), witness=wit)
        for nm in names:
            a, la = dr.read_h5(os.path.join(outs[1], nm))
            b, lb = dr.read_h5(os.path.join(outs[P], nm))
            ev["driver_files_compared"] += 1
            scale = float(np.abs(a).max()) + 1e-300
            if la != lb or a.shape != b.shape or not np.all(np.abs(a - b) <= TOLC * 2.2e-16 * scale):
                return result(VIOL, cls=cls, events=ev, key="C05:driver-checkpoint/%s" % nm.split("_")[0],
                              what="%s written by %d ranks differs from the serial run by %.3g (scale %.3g), iota=%g" % (nm, P, float(np.abs(a - b).max()) if a.shape == b.shape else -1, scale, case["iota"]), witness=wit)
    finally:
        shutil.rmtree(tmp, ignore_errors=True)
    return result(HELD, cls=cls, events=ev, n_eval=ev["driver_files_compared"])
