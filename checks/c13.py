"""C13 -- the parallel gradient is the field-aligned finite-difference derivative.

Oracle: (b_z(r)/dz) * sum_k c_k S_{i+k}(theta_j + iota(r)*k*dz/R0 mod 2pi), c_k = exact-rational
first-derivative weights on order+1 consecutive nodes (centred for even order; for odd order any
ONE contiguous stencil containing 0, consistently at all nodes), theta-splines by dense periodic
collocation solve.  Per-rank Layout objects give the local-index mapping for r split over 1-4
ranks.  Identities and observed convergence order on the real code.
"""
import random
from math import pi

import numpy as np

from vlib import paths, argrep
paths.setup()
from vlib.runner import result, HELD, VIOL, SKIP, INCO  # noqa: E402
from vlib import refmath as rm  # noqa: E402
from vlib import physgen as pg  # noqa: E402

ID = "C13"
LEVEL = "exploration"
RULE = ("seeded set-ups: order 2-6, n_z from order+1 up to 24, n_theta 4-20, theta-spline degree 1-5 (3 = fast path), "
        "iota 0 / +-0.8 / +3.7 / -4.3 (field lines winding more than once around theta within the stencil) / r-dependent (caller supplied), r split over 1-4 ranks (per-rank Layout objects, every local "
        "radial index), random potentials; ParallelGradient.parallel_gradient compared on every node (seam rows where the "
        "three index regimes differ included) with the independent formula; identities (linearity, constants->0, "
        "theta-only->0 without twist, z-shift commutation); observed convergence order on a smooth field-aligned mode.  A "
        "class is (order, spline path, iota class, #ranks over r, monitor).")
ASSUMPTIONS = ["reference theta-spline: dense periodic collocation + Cox-de Boor; FD weights by exact-rational Vandermonde solve",
               "odd orders: any single contiguous stencil containing 0 is accepted (the statement fixes none)"]
REQUIRED_EVENTS = {"nodes_compared": 1, "identity_checks": 1, "order_checks": 1, "distributed_r_cases": 1, "multi_turn_shifts": 1}
C = 100.0
KEY_RDEP = "C13:r-dependent-iota/distributed-r/field-line-table-indexed-with-local-radius"


def gen_cases(tier, seed):
    rng = random.Random(131313 + seed)
    cases = []
    for k in range(90 if tier == "quick" else 12000):
        order = rng.randint(2, 6)
        deg = rng.choice([1, 2, 3, 3, 3, 4, 5])
        nr = rng.randint(2, 6)
        cases.append({"kind": "formula", "order": order, "deg": deg, "nth": rng.randint(max(4, deg + 1), 20), "nz": rng.randint(order + 1, 24),
                      "nr": nr, "P": rng.randint(1, min(4, nr)), "iota": rng.choice(["zero", "pos", "neg", "big", "bigneg", "rdep" if (tier == "thorough" or rng.random() < 0.5) else "pos"]),
                      "R0": rng.uniform(1, 10), "seed": rng.randrange(1 << 30), "cost": 50})
    for order in range(2, 7):
        for iota in ("zero", "pos"):
            cases.append({"kind": "order", "order": order, "iota": iota, "seed": order, "cost": 400})
    return cases


def _iota_fn(kind):
    if kind == "zero":
        return lambda r: np.full_like(r, 0.0, dtype=float)
    if kind == "pos":
        return lambda r: np.full_like(r, 0.8, dtype=float)
    if kind == "neg":
        return lambda r: np.full_like(r, -0.8, dtype=float)
    if kind == "big":          # field lines that wind around theta more than once within the stencil
        return lambda r: np.full_like(r, 3.7, dtype=float)
    if kind == "bigneg":
        return lambda r: np.full_like(r, -4.3, dtype=float)
    return lambda r: 0.8 + 0.3 * np.asarray(r, dtype=float)


def ref_gradient(phi, thetaref, th, dz, offsets, bz, iota_r, R0):
    nz = phi.shape[0]
    w = rm.fd_weights(offsets, 1)
    out = np.zeros_like(phi)
    for k, wk in zip(offsets, w):
        E = thetaref.basis_matrix(np.mod(th + iota_r * k * dz / R0, 2 * pi))      # (nth, nth)
        rows = (np.arange(nz) + k) % nz
        out += wk * (phi[rows, :] @ E.T)
    return out * (bz / dz), float(np.abs(w).sum())


def run_case(case):
    import pygyro.splines as spl
    from pygyro.advection import advection as adv
    from pygyro.model.layout import Layout
    paths.assert_repo(adv)
    if case["kind"] == "order":
        return _order_case(case, spl, adv, Layout)
    rs = np.random.RandomState(case["seed"] % (1 << 31))
    rng = random.Random(case["seed"])
    order, deg, nth, nz, nr, P, R0 = case["order"], case["deg"], case["nth"], case["nz"], case["nr"], case["P"], case["R0"]
    zMax = rng.choice([2 * pi * R0, rng.uniform(5, 50)])
    if case["iota"] in ("big", "bigneg"):
        zMax = 2 * pi * R0 * rng.choice([1, 2])
    rng2 = random.Random(case["seed"] ^ 0x5EED8)         # own generator: a z domain that does not start at 0 (only dz may matter)
    zMin = rng2.choice([0.0, 0.0, -0.5 * zMax, rng2.uniform(-25, 25)])
    zMax = zMin + zMax
    c = pg.make_constants(rMin=rng.uniform(0.1, 1.0), rMax=rng.uniform(3, 8), zMin=zMin, zMax=zMax, R0=R0,
                          npts=[nr, nth, nz, 4], splineDegrees=[min(3, nr - 1), deg, min(3, nz - 1), 3], iota_fn=_iota_fn(case["iota"]))
    eta, bs, _ = pg.make_space(spl, c.npts[:3], c.splineDegrees[:3], pg.std_domain(c)[:3], period=(False, True, True))
    dz = eta[2][1] - eta[2][0]
    thetaref = pg.PeriodicSplineRef(bs[1], eta[1])
    if thetaref.kappa > 1e8:
        return result(SKIP, what="ill conditioned theta space")
    path = "fast" if bs[1].cubic_uniform else "general-p%d" % deg
    base = "order%d/%s/iota-%s/P%d" % (order, path, case["iota"], P)
    cls, ev = set(), {"nodes_compared": 0, "identity_checks": 0, "order_checks": 0, "distributed_r_cases": 1 if P > 1 else 0, "multi_turn_shifts": 0,
                      "z_origin_nonzero_cases": int(zMin != 0.0)}
    n = order + 1
    cands = [list(range(-(n // 2), n // 2 + 1))] if n % 2 else [list(range(s, s + n)) for s in range(-(n - 1), 1)]
    chosen = None
    wit0 = {"case": case, "zMin": zMin, "zMax": zMax, "rMin": c.rMin, "rMax": c.rMax}
    iota_all = c.iota(eta[0])
    # the layout the operator is built for: r distributed and stored first (the driver's choice), r distributed but stored
    # second (after z), or r stored last and not distributed at all (theta distributed) -- the local-index mapping must follow
    lkind = case["seed"] % 4
    rank_list = list(range(P))
    for k in rank_list:
        if lkind == 1 and nz >= 2:
            layout = Layout('z_r_theta', [2, P], [2, 0, 1], eta, [k % 2, k])
        elif lkind == 2 and nth >= P:
            layout = Layout('theta_z_r', [P], [1, 2, 0], eta, [k])
        else:
            layout = Layout('v_parallel_1d', [P], [0, 2, 1], eta, [k])
        rpos = int(list(layout.dims_order).index(0))
        op = adv.ParallelGradient(bs[1], eta, layout, c, order)
        # a second live operator with a different order (built after, never used): must not influence the first
        other = [o for o in range(2, 7) if o != order and nz > o]
        decoy = adv.ParallelGradient(bs[1], eta, layout, c, other[(k + order) % len(other)]) if other else None
        r0 = int(layout.starts[rpos])
        for i in range(int(layout.shape[rpos])):
            I = r0 + i
            phi = rs.standard_normal((nz, nth))
            # storage type of the potential handed in: the result is that of the same numbers in double precision
            pk = (case["seed"] // 4 + I) % 5
            if pk == 3:
                phi = np.round(phi * 3.0)
                phi_in = phi.astype(np.int64)
            elif pk == 4:
                phi = phi.astype(np.float32).astype(float)
                phi_in = phi.astype(np.float32)
            else:
                phi_in = phi.copy()
            rep_in = argrep.kinds(2)[(case["seed"] + I) % len(argrep.kinds(2))]
            rep_out = argrep.kinds(2)[(case["seed"] // 8 + 2 * I) % len(argrep.kinds(2))]
            phi_in = argrep.view_of(phi_in, rep_in)                        # potential and result array: fresh C-contiguous, Fortran-ordered, or a
            held = argrep.view_of(np.full((nz, nth), np.nan), rep_out)     # window / stride / plane of a larger block (the driver passes np.real views)
            op.parallel_gradient(phi_in, i, held)
            got = np.array(held)
            ev["arguments_not_c_contiguous"] = ev.get("arguments_not_c_contiguous", 0) + int(rep_in != "c") + int(rep_out != "c")
            cls.add("%s/layout-%s/phi-%s" % (base, ("r-first", "r-second", "r-last-undistributed", "r-first")[lkind], ("float64", "float64", "float64", "int64", "float32")[pk]))
            bz = float(pg.bz(eta[0][I], iota_all[I], R0))
            if abs(iota_all[I]) * (n // 2) * dz / R0 > 2 * pi:
                ev["multi_turn_shifts"] += 1
            best = None
            for offs in (cands if chosen is None else [chosen]):
                ref, wsum = ref_gradient(phi, thetaref, eta[1], dz, offs, bz, float(iota_all[I]), R0)
                tol = C * rm.EPS * thetaref.kappa * float(np.abs(phi).max()) * wsum * bz / dz * (2 + abs(iota_all[I]) * n * dz / R0 * 2 * deg * deg / (eta[1][1] - eta[1][0]))
                e = float(np.nanmax(np.abs(got - ref))) if np.all(np.isfinite(got)) else np.inf
                if best is None or e < best[0]:
                    best = (e, tol, offs)
            ev["nodes_compared"] += phi.size
            cls.add("%s/formula%s" % (base, "/seam-rows" if True else ""))
            if not best[0] <= best[1]:
                key = "C13:formula/order%d" % order
                if case["iota"] == "rdep" and r0 > 0:
                    key = KEY_RDEP
                return result(VIOL, cls=sorted(cls), events=ev, key=key,
                              what="parallel_gradient(order %d, local r index %d = global %d of rank %d/%d, iota=%s) differs from the field-aligned FD formula by %.3g (tol %.3g) for every admissible stencil"
                              % (order, i, I, k, P, case["iota"], best[0], best[1]), witness=dict(wit0, rank=k, i=i))
            chosen = best[2]
            # history: the same object asked again for the same radius must give the same answer (bit for bit)
            again = np.full((nz, nth), np.nan)
            op.parallel_gradient(phi.copy(), i, again)
            ev["identity_checks"] += 1
            # (the property does not ask for bit-wise reproducibility: the repeated answer is judged like the first one)
            ref_b, _w = ref_gradient(phi, thetaref, eta[1], dz, best[2], bz, float(iota_all[I]), R0)
            e_again = float(np.nanmax(np.abs(again - ref_b))) if np.all(np.isfinite(again)) else np.inf
            if not e_again <= best[1]:
                return result(VIOL, cls=sorted(cls), events=ev, key="C13:repeated-call-differs",
                              what="parallel_gradient called a second time with the same arguments on the same object differs from the formula by %.3g (tol %.3g; first call %.3g; change between the calls %.3g), order %d, local r index %d"
                              % (e_again, best[1], best[0], float(np.nanmax(np.abs(again - got))), order, i), witness=dict(wit0, rank=k, i=i))
            if k == 0 and i == 0:
                # identities on the real code
                def run(A):
                    out = np.full((nz, nth), np.nan)
                    op.parallel_gradient(np.array(A, copy=True), i, out)
                    return out
                psi = rs.standard_normal((nz, nth))
                a, b = rs.uniform(-2, 2, 2)
                t2 = 4 * best[1]
                checks = [("constants", np.abs(run(np.full((nz, nth), 2.5))).max()),
                          ("linearity", np.abs(run(a * phi + b * psi) - (a * got + b * run(psi))).max() / (abs(a) + abs(b) + 1)),
                          ("z-shift", np.abs(run(np.roll(phi, 2, axis=0)) - np.roll(got, 2, axis=0)).max())]
                if case["iota"] == "zero":
                    checks.append(("theta-only", np.abs(run(np.tile(rs.standard_normal(nth), (nz, 1)))).max()))
                for nm, e in checks:
                    ev["identity_checks"] += 1
                    cls.add("%s/identity-%s" % (base, nm))
                    if not e <= t2:
                        return result(VIOL, cls=sorted(cls), events=ev, key="C13:identity-%s" % nm,
                                      what="identity '%s' violated by %.3g (tol %.3g), order %d, iota=%s" % (nm, e, t2, order, case["iota"]), witness=wit0)
    return result(HELD, cls=sorted(cls), events=ev, n_eval=ev["nodes_compared"])


def _order_case(case, spl, adv, Layout):
    order = case["order"]
    R0 = 3.0
    zMax = 2 * pi * R0
    errs = []
    m, nmode = 2, 1
    nth = 40
    for nz in (16, 32):
        c = pg.make_constants(rMin=0.5, rMax=4.0, zMin=0.0, zMax=zMax, R0=R0, npts=[3, nth, nz, 4], splineDegrees=[2, 5, 3, 3],
                              iota_fn=_iota_fn(case["iota"]))
        eta, bs, _ = pg.make_space(spl, c.npts[:3], c.splineDegrees[:3], pg.std_domain(c)[:3], period=(False, True, True))
        layout = Layout('v_parallel_1d', [1], [0, 2, 1], eta, [0])
        op = adv.ParallelGradient(bs[1], eta, layout, c, order)
        i = 1
        r = eta[0][i]
        io = float(c.iota(eta[0])[i])
        bz = float(pg.bz(r, io, R0))
        Z, TH = np.meshgrid(eta[2], eta[1], indexing="ij")
        phi = np.sin(m * TH + nmode * Z / R0)
        exact = bz * (nmode / R0 + m * io / R0) * np.cos(m * TH + nmode * Z / R0)
        got = np.empty_like(phi)
        op.parallel_gradient(phi, i, got)
        errs.append(float(np.abs(got - exact).max()))
    ev = {"order_checks": 1, "nodes_compared": 0, "identity_checks": 0, "distributed_r_cases": 0, "multi_turn_shifts": 0}
    cls = ["order%d/iota-%s/convergence" % (order, case["iota"])]
    if errs[1] < 1e-11 or errs[0] < 1e-11:
        return result(HELD, cls=cls, events=ev, extra={"errs": errs})
    obs = np.log2(errs[0] / errs[1])
    # an odd order o on a non-centred stencil still gives order o; even orders give order o
    if not obs >= order - 0.3:
        return result(VIOL, cls=cls, events=ev, key="C13:convergence-order", what="order %d scheme converges with observed order %.2f (errors %r)" % (order, obs, errs),
                      witness={"case": case, "errs": errs})
    return result(HELD, cls=cls, events=ev, extra={"errs": errs, "observed_order": float(obs)})
