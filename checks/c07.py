"""C07 -- spline evaluation equals the mathematical B-spline on every entry point.

Oracle: de Boor's algorithm on control points (vlib.refmath) cross-checked with
scipy.interpolate.BSpline, both on the knot vector the path really uses; definitional
Cox-de Boor recursion for the basis properties.  Tolerance: c*eps*(local coefficient scale).
"""
import random

import numpy as np

from vlib import paths, argrep
paths.setup()
from vlib.runner import result, HELD, VIOL, SKIP, INCO  # noqa: E402
from vlib import refmath as rm  # noqa: E402
from vlib import splgen  # noqa: E402

ID = "C07"
LEVEL = "exploration"
RULE = ("seeded spline spaces: degree 1-5 (1-D up to 10), 1-40 cells, uniform/random/graded(ratio 100)/alternating "
        "breakpoints, clamped/periodic, general path and uniform-cubic fast path (incl. clamped with 1 and 2 cells); "
        "coefficient vectors: ones, random, badly scaled (16 decades), alternating, unit; points: both end points, one ulp "
        "inside them, every breakpoint and one ulp on both sides, interpolation points, random interior; entry points: "
        "Spline1D.eval scalar/array, eval_vector (in place), Spline2D.eval scalar/tensor grid, Spline2D.eval_vector, module "
        "level *_eval_spline_2d_vector, BSplines[i], derivative orders {0,1} (2-D: {0,1}^2); basis >= 0, sum 1, derivative "
        "sum 0; periodic end equality; fast path vs general path.  A class is (path, degree, boundary, uniformity, entry "
        "point, derivative order, point kind) in which at least one value was compared with the reference.")
ASSUMPTIONS = ["reference = de Boor recursion on control points + scipy BSpline (second opinion shares the recurrence family, not the code)",
               "tolerance 200*eps*(p+1)*local coefficient scale*(1+p*max|x|/local cell size) (derivative: times 2p^2/min local knot span): rounding of sums plus cancellation in (x-knot)/(knot difference) of the input coordinates",
               "degree-1 derivative at a breakpoint may be either one-sided value (statement does not fix it)"]
REQUIRED_EVENTS = {"values_compared": 1, "derivs_compared": 1, "values2d_compared": 1, "basis_points": 1, "fast_vs_general": 1}
C = 200.0


def gen_cases(tier, seed):
    rng = random.Random(7070707 + seed)
    cases = []
    n1 = 300 if tier == "quick" else 12000
    n2 = 70 if tier == "quick" else 2500
    # dedicated corner configurations
    fixed = []
    for p in range(1, 11):
        fixed.append({"degree": p, "ncells": 1, "periodic": False, "kind": "uniform", "fast": False, "uniform_flag": True, "seed": p})
        fixed.append({"degree": p, "ncells": p + 1, "periodic": True, "kind": "random", "fast": False, "uniform_flag": False, "seed": 100 + p})
        fixed.append({"degree": p, "ncells": p, "periodic": True, "kind": "random", "fast": False, "uniform_flag": False, "seed": 150 + p})
    for nc in (1, 2, 3, 4, 7):
        fixed.append({"degree": 3, "ncells": nc, "periodic": False, "kind": "uniform", "fast": True, "uniform_flag": True, "seed": 200 + nc})
    for nc in (4, 5, 8):
        fixed.append({"degree": 3, "ncells": nc, "periodic": True, "kind": "uniform", "fast": True, "uniform_flag": True, "seed": 300 + nc})
    for cfg in fixed:
        cases.append({"kind": "1d", "cfg": cfg, "seed": cfg["seed"]})
    for k in range(n1):
        cfg = splgen.random_cfg(rng, max_degree=10 if rng.random() < 0.3 else 5)
        cases.append({"kind": "1d", "cfg": cfg, "seed": rng.randrange(1 << 30), "cost": cfg["ncells"] * cfg["degree"]})
    for k in range(n2):
        fast = rng.random() < 0.35
        c1 = splgen.random_cfg(rng, max_degree=5, max_cells=10, allow_fast=False)
        c2 = splgen.random_cfg(rng, max_degree=5, max_cells=10, allow_fast=False)
        if fast:
            for c in (c1, c2):
                c.update(degree=3, kind="uniform", fast=True, uniform_flag=True)
                c["ncells"] = max(c["ncells"], 4)
        cases.append({"kind": "2d", "cfg1": c1, "cfg2": c2, "seed": rng.randrange(1 << 30), "cost": 40 * c1["degree"] * c2["degree"]})
    for k in range(30 if tier == "quick" else 600):
        cases.append({"kind": "fastgen", "ncells": rng.randint(3, 30), "periodic": rng.random() < 0.5, "seed": rng.randrange(1 << 30), "cost": 50})
    return cases


def _local_scale(T, p, c, x, der):
    n = len(T) - p - 1
    k = rm._find_interval(T, p, x)
    lo, hi = max(0, k - p - 1), min(n, k + 2)
    loc = np.abs(np.asarray(c)[lo:hi])
    s = float(loc.max()) if loc.size else 0.0
    cells = [T[j + 1] - T[j] for j in range(max(0, lo), min(len(T) - 1, hi + p + 1)) if T[j + 1] - T[j] > 0]
    hcell = min(cells) if cells else 1.0
    # positions inside a cell are formed from absolute coordinates (x - knot)/(knot difference): the rounding
    # of the INPUT contributes eps*|x|/h to the local coordinate, hence |x|/h * p to the relative error of the value
    s = s * (1.0 + p * max(abs(x), abs(T[0]), abs(T[-1])) / hcell)
    if der:
        spans = [T[j + p] - T[j] for j in range(max(1, lo), min(len(T) - p, hi + 1)) if T[j + p] - T[j] > 0]
        hmin = min(spans) if spans else 1.0
        s = s * 2 * p / hmin * p
    return s


def _cfg_name(cfg):
    return "%s/p%d/%s/%s" % ("fast" if cfg["fast"] else "general", cfg["degree"], "periodic" if cfg["periodic"] else "clamped", cfg["kind"])


def run_case(case):
    import pygyro.splines as spl
    paths.assert_repo(spl)
    if case["kind"] == "1d":
        return _case_1d(case, spl)
    if case["kind"] == "2d":
        return _case_2d(case, spl)
    if case["kind"] == "fastgen":
        return _case_fastgen(case, spl)
    return result(INCO, what="unknown kind")


def _viol(cls, ev, n, key, what, wit):
    return result(VIOL, cls=sorted(cls), events=ev, n_eval=n, key=key, what=what, witness=wit)


def _case_1d(case, spl):
    cfg = case["cfg"]
    rng = random.Random(case["seed"])
    basis, breaks = splgen.make_basis(spl, cfg, random.Random(cfg["seed"]))
    if bool(basis.cubic_uniform) != bool(cfg["fast"]) and cfg["degree"] == 3 and cfg["kind"] == "uniform":
        cfg = dict(cfg, fast=bool(basis.cubic_uniform))
    p = basis.degree
    T = rm.knots_of(basis)
    n = basis.ncells + p
    name = _cfg_name(cfg)
    cls, ev, neval = set(), {"values_compared": 0, "derivs_compared": 0, "basis_points": 0, "periodic_ends": 0}, 0
    pts = splgen.eval_points(rng, breaks, basis.greville, nrand=8)
    if len(pts) > 70:
        keep = [q for q in pts if q[0] in ("end", "ulp-inside", "near-knot")]
        rest = [q for q in pts if q[0] not in ("end", "ulp-inside", "near-knot")]
        rng.shuffle(rest)
        pts = keep + rest[:64]
    xs = np.array([x for _k, x in pts])
    wit0 = {"cfg": cfg, "breaks": [float(b) for b in breaks]}
    # odd seeds: ONE spline object whose coefficient array is taken once and refilled in place through that reference for every
    # coefficient vector (what callers that keep `c = spline.coeffs` do); even seeds: a fresh spline per vector
    shared = spl.Spline1D(basis) if case["seed"] % 2 else None
    held = shared.coeffs if shared is not None else None
    for cname, c in splgen.coeff_vectors(rng, n):
        if basis.periodic:
            c = splgen.wrap_periodic(c, basis.ncells, p)
        if shared is not None:
            s = shared
            held[:] = c
            cls.add("%s/coefficients-refilled-in-place" % name)
        else:
            s = spl.Spline1D(basis)
            s.coeffs[:] = c
        for der in (0, 1):
            ref = rm.spline_eval(T, c, p, xs, der)
            ref2 = rm.spline_eval_scipy(T, c, p, xs, der)
            got_arr = s.eval(xs.copy(), der)
            keep = (got_arr, got_arr.copy())
            # the caller's points / result arrays: fresh, a stride / column / window of a larger block, or ONE array for both (in place)
            rk = (case.get("seed", 0) + 2 * der + len(ev)) % 5
            x_in = argrep.view_of(xs, argrep.kinds(1)[(rk + 1) % 4])
            if rk == 4:
                got_vec = x_in = argrep.view_of(xs, "c")
            else:
                got_vec = argrep.view_of(np.full(len(xs), np.nan), argrep.kinds(1)[rk])
            s.eval_vector(x_in, got_vec, der)
            ev["eval_vector_argument_layouts"] = ev.get("eval_vector_argument_layouts", 0) + 1
            if rk != 4 and not np.array_equal(np.array(x_in), xs):
                return result(VIOL, cls=sorted(cls), events=ev, key="C07:eval_vector-modified-its-points", what="%s: Spline1D.eval_vector changed the evaluation points it was handed" % name, witness={"case": case})
            got_vec = np.array(got_vec)
            got_sc = np.array([s.eval(float(x), der) for x in xs])
            other = s.eval(xs.copy(), 1 - der)
            # a returned array must stay what it was: later evaluations of the same object must not write into it
            ev["aliasing_checks"] = ev.get("aliasing_checks", 0) + 1
            if np.shares_memory(keep[0], other) or not np.array_equal(keep[0], keep[1], equal_nan=True):
                return _viol(cls, ev, neval, "C07:returned-array-overwritten-by-later-call", "%s: the array returned by Spline1D.eval(x, %d) was modified by later evaluations of the same spline" % (name, der),
                             dict(wit0, der=der))
            for entry, got in (("eval-array", got_arr), ("eval_vector", got_vec), ("eval-scalar", got_sc)):
                for i, (kind, x) in enumerate(pts):
                    tol = C * rm.EPS * (p + 1) * _local_scale(T, p, c, x, der) + 1e-300
                    neval += 1
                    ev["derivs_compared" if der else "values_compared"] += 1
                    cls.add("%s/%s/der%d/%s" % (name, entry, der, kind))
                    e1 = abs(got[i] - ref[i])
                    if not (e1 <= tol):
                        # degree-1 derivative at a knot: either one-sided value is acceptable
                        if der == 1 and p == 1 and kind in ("knot", "greville", "ulp-off-knot", "near-knot"):
                            alt = [rm.spline_eval(T, c, p, float(np.nextafter(x, breaks[0])), 1), rm.spline_eval(T, c, p, float(np.nextafter(x, breaks[-1])), 1)]
                            if min(abs(got[i] - a) for a in alt) <= tol:
                                continue
                        # the scipy opinion must agree with the de Boor reference before we accuse the code
                        if np.isfinite(ref2[i]) and abs(ref2[i] - ref[i]) > tol:
                            ev["reference_disagreement"] = ev.get("reference_disagreement", 0) + 1
                            continue
                        return _viol(cls, ev, neval, "C07:1d-%s-%s" % ("derivative" if der else "value", "fast" if cfg["fast"] else "general"),
                                     "%s %s der=%d coeffs=%s at %s point x=%r: got %r, reference %r (|diff| %.3g > tol %.3g)"
                                     % (name, entry, der, cname, kind, x, got[i], ref[i], e1, tol),
                                     dict(wit0, coeffs=c.tolist(), x=x, der=der, entry=entry))
        if basis.periodic:
            a, b = basis.domain
            for der in (0, 1):
                va, vb = s.eval(float(a), der), s.eval(float(b), der)
                sc = _local_scale(T, p, c, a, der) + _local_scale(T, p, c, b, der)
                ev["periodic_ends"] += 1
                cls.add("%s/periodic-ends/der%d" % (name, der))
                if not abs(va - vb) <= 4 * C * rm.EPS * (p + 1) * sc + 1e-300:
                    if der == 1 and p == 1:
                        continue
                    return _viol(cls, ev, neval, "C07:periodic-end-mismatch", "%s: S^(%d)(a)=%r but S^(%d)(b)=%r with wrapped coefficients"
                                 % (name, der, va, der, vb), dict(wit0, coeffs=c.tolist()))
    # basis functions through BSplines[i]: non-negative, partition of unity, derivative sum zero, vs definition
    nb = basis.nbasis
    sub = pts if len(pts) <= 24 else pts[:4] + random.Random(case["seed"] + 1).sample(pts[4:], 20)
    # history: a caller may scribble on the spline it was handed; asking again must give the basis function again
    for i in range(nb):
        tmp = basis[i]
        tmp.coeffs[:] = -3.5
    splines = [basis[i] for i in range(nb)]
    for kind, x in sub:
        vals = np.array([b_.eval(float(x)) for b_ in splines])
        ders = np.array([b_.eval(float(x), 1) for b_ in splines])
        ev["basis_points"] += 1
        neval += 1
        cls.add("%s/basis/%s" % (name, kind))
        refB = np.array(rm.basis_all(T, p, x))
        if basis.periodic:
            fold = refB[:nb].copy()
            fold[:len(refB) - nb] += refB[nb:]
            refB = fold
        hmin = float(np.min(np.diff(breaks)))
        if vals.min() < -C * rm.EPS:
            return _viol(cls, ev, neval, "C07:basis-negative", "%s: basis function %d is %r at x=%r" % (name, int(vals.argmin()), vals.min(), x), dict(wit0, x=x))
        if abs(vals.sum() - 1) > C * rm.EPS * (p + 1):
            return _viol(cls, ev, neval, "C07:basis-not-partition-of-unity", "%s: basis sums to %r at %s point x=%r" % (name, vals.sum(), kind, x), dict(wit0, x=x))
        if not (p == 1 and kind != "interior") and abs(ders.sum()) > C * rm.EPS * (p + 1) * 2 * p * p / hmin:
            return _viol(cls, ev, neval, "C07:basis-derivatives-do-not-sum-to-zero", "%s: basis derivatives sum to %r at x=%r" % (name, ders.sum(), x), dict(wit0, x=x))
        if np.abs(vals - refB).max() > C * rm.EPS * (p + 1) * (1 + p * max(abs(breaks[0]), abs(breaks[-1])) / hmin):
            j = int(np.abs(vals - refB).argmax())
            return _viol(cls, ev, neval, "C07:basis-value", "%s: BSplines[%d](%r) = %r, Cox-de Boor definition gives %r" % (name, j, x, vals[j], refB[j]), dict(wit0, x=x, j=j))
    # exact-rational cross-check of the float reference itself on small spaces (keeps the oracle honest)
    if len(T) <= 14 and p <= 4:
        x = pts[-1][1]
        ex = [float(v) for v in rm.basis_all(T, p, x, exact=True)]
        fl = rm.basis_all(T, p, x)
        if max(abs(a - b) for a, b in zip(ex, fl)) > 50 * rm.EPS:
            return result(INCO, what="reference self-check failed (float vs exact Cox-de Boor)")
        ev["exact_rational_selfchecks"] = 1
    return result(HELD, cls=sorted(cls), events=ev, n_eval=neval)


def _case_2d(case, spl):
    from pygyro.splines import spline_eval_funcs as nu
    from pygyro.splines import cubic_uniform_spline_eval_funcs as cu
    rng = random.Random(case["seed"])
    b1, br1 = splgen.make_basis(spl, case["cfg1"], random.Random(case["cfg1"]["seed"]))
    b2, br2 = splgen.make_basis(spl, case["cfg2"], random.Random(case["cfg2"]["seed"]))
    if b1.cubic_uniform != b2.cubic_uniform:
        return result(SKIP, what="mixed fast/general 2-D space is rejected by Spline2D (assert)")
    T1, T2 = rm.knots_of(b1), rm.knots_of(b2)
    p1, p2 = b1.degree, b2.degree
    name = "2d/%s/p%d%s-p%d%s" % ("fast" if b1.cubic_uniform else "general", p1, "P" if b1.periodic else "C", p2, "P" if b2.periodic else "C")
    s = spl.Spline2D(b1, b2)
    rs = np.random.RandomState(case["seed"] % (1 << 31))
    Cf = rs.standard_normal(s.coeffs.shape)
    if b1.periodic:
        Cf[b1.ncells:b1.ncells + p1, :] = Cf[:p1, :]
    if b2.periodic:
        Cf[:, b2.ncells:b2.ncells + p2] = Cf[:, :p2]
    s.coeffs[:] = Cf
    P1 = splgen.eval_points(rng, br1, None, nrand=3)
    P2 = splgen.eval_points(rng, br2, None, nrand=3)
    if len(P1) > 10:
        P1 = P1[:4] + rng.sample(P1[4:], 6)
    if len(P2) > 10:
        P2 = P2[:4] + rng.sample(P2[4:], 6)
    x1 = np.array([x for _k, x in P1])
    x2 = np.array([x for _k, x in P2])
    cls, ev, neval = set(), {"values2d_compared": 0}, 0
    retained = []
    h1, h2 = float(np.min(np.diff(br1))), float(np.min(np.diff(br2)))
    cmax = float(np.abs(Cf).max())
    wit = {"cfg1": case["cfg1"], "cfg2": case["cfg2"], "seed": case["seed"]}
    for d1 in (0, 1):
        for d2 in (0, 1):
            ref = rm.spline2d_eval(T1, p1, T2, p2, Cf, x1, x2, d1, d2)
            # relative error: rounding of the two sums plus input cancellation per direction (they ADD, not multiply)
            rel = (p1 + 1) * (p2 + 1) + p1 * float(np.abs(T1).max()) / h1 + p2 * float(np.abs(T2).max()) / h2
            tol = C * rm.EPS * rel * cmax * ((2 * p1 * p1 / h1) if d1 else 1) * ((2 * p2 * p2 / h2) if d2 else 1)
            got_grid = s.eval(x1.copy(), x2.copy(), d1, d2)
            retained.append((got_grid, got_grid.copy(), (d1, d2)))
            held = argrep.view_of(np.full((len(x1), len(x2)), np.nan), argrep.kinds(2)[(case.get("seed", 0) + 2 * d1 + d2) % 5])   # the caller's result array in several memory layouts
            s.eval_vector(argrep.view_of(x1, argrep.kinds(1)[(case.get("seed", 0) + d1) % 4]), argrep.view_of(x2, argrep.kinds(1)[(case.get("seed", 0) // 4 + d2) % 4]), held, d1, d2)
            got_vec = np.array(held)
            got_sc = np.array([[s.eval(float(a), float(b), d1, d2) for b in x2] for a in x1])
            # module-level pointwise vector entry
            X, Y = np.meshgrid(x1, x2, indexing="ij")
            z = np.full(X.size, np.nan)
            f = cu.cu_eval_spline_2d_vector if b1.cubic_uniform else nu.nu_eval_spline_2d_vector
            f(X.ravel().copy(), Y.ravel().copy(), b1.knots, p1, b2.knots, p2, s.coeffs, z, d1, d2)
            got_pw = z.reshape(X.shape)
            for entry, got in (("eval-grid", got_grid), ("eval_vector", got_vec), ("eval-scalar", got_sc), ("module-2d_vector", got_pw)):
                neval += got.size
                ev["values2d_compared"] += got.size
                for (k1, _a) in P1:
                    for (k2, _b) in P2:
                        cls.add("%s/%s/der%d%d/%s-%s" % (name, entry, d1, d2, k1, k2))
                err = np.abs(got - ref)
                if p1 == 1 and d1 or p2 == 1 and d2:
                    # one-sided ambiguity of degree-1 derivatives at knots: compare interior points only
                    m1 = np.array([k == "interior" for k, _ in P1]) if (p1 == 1 and d1) else np.ones(len(P1), bool)
                    m2 = np.array([k == "interior" for k, _ in P2]) if (p2 == 1 and d2) else np.ones(len(P2), bool)
                    err = err[np.ix_(m1, m2)]
                    if err.size == 0:
                        continue
                if not np.all(err <= tol):
                    i, j = np.unravel_index(int(np.nanargmax(np.where(np.isnan(err), np.inf, err))), err.shape)
                    return _viol(cls, ev, neval, "C07:2d-%s" % ("fast" if b1.cubic_uniform else "general"),
                                 "%s %s der=(%d,%d): max |diff| %.3g > tol %.3g (e.g. index %r)" % (name, entry, d1, d2, float(np.nanmax(err)), tol, (int(i), int(j))),
                                 dict(wit, entry=entry, der=[d1, d2]))
    # arrays returned by earlier tensor-grid evaluations must not have been overwritten by the later ones
    ev["aliasing_checks"] = len(retained)
    for k, (arr, cp, dd) in enumerate(retained):
        if not np.array_equal(arr, cp, equal_nan=True) or any(np.shares_memory(arr, o[0]) for o in retained[k + 1:]):
            return _viol(cls, ev, neval, "C07:returned-array-overwritten-by-later-call", "%s: the array returned by Spline2D.eval(..., der=%r) was overwritten by a later evaluation of the same spline" % (name, dd),
                         dict(wit, der=list(dd)))
    return result(HELD, cls=sorted(cls), events=ev, n_eval=neval)


def _case_fastgen(case, spl):
    """uniform-cubic fast path vs general path on the same breakpoints: periodic -> same coefficients
    give the same function; clamped -> interpolating the same data gives the same function."""
    rng = random.Random(case["seed"])
    nc, per = case["ncells"], case["periodic"]
    if per:
        nc = max(nc, 4)
    a = rng.uniform(-3, 3)
    b = a + 10 ** rng.uniform(-1, 1)
    breaks = np.linspace(a, b, nc + 1)
    kn = spl.make_knots(breaks, 3, per)
    bf = spl.BSplines(kn, 3, per, True)
    bg = spl.BSplines(kn, 3, per, False)
    assert bf.cubic_uniform and not bg.cubic_uniform
    rs = np.random.RandomState(case["seed"] % (1 << 31))
    xs = np.concatenate([breaks, rs.uniform(a, b, 25), [np.nextafter(a, b), np.nextafter(b, a)]])
    sf, sg = spl.Spline1D(bf), spl.Spline1D(bg)
    ev = {"fast_vs_general": 0}
    cls = set()
    name = "fastgen/%s" % ("periodic" if per else "clamped")
    if per:
        c = splgen.wrap_periodic(rs.standard_normal(nc + 3), nc, 3)
        sf.coeffs[:] = c
        sg.coeffs[:] = c
        kappa = 1.0
        scale = np.abs(c).max()
    else:
        gf, gg = np.asarray(bf.greville), np.asarray(bg.greville)
        if np.abs(gf - gg).max() > 1e-13 * max(1.0, abs(a), abs(b)):
            return result(SKIP, what="interpolation points of the two paths differ; comparison not defined")
        u = rs.standard_normal(bf.nbasis)
        spl.SplineInterpolator1D(bf).compute_interpolant(u, sf)
        spl.SplineInterpolator1D(bg).compute_interpolant(u, sg)
        M = rm.collocation(rm.knots_of(bg), 3, gg)
        kappa = np.linalg.cond(M)
        scale = max(np.abs(sf.coeffs).max(), np.abs(sg.coeffs).max())
    for der in (0, 1):
        vf = sf.eval(xs.copy(), der)
        vg = sg.eval(xs.copy(), der)
        ev["fast_vs_general"] += len(xs)
        cls.add("%s/der%d" % (name, der))
        tol = C * rm.EPS * 4 * scale * kappa * ((18.0 / (breaks[1] - breaks[0])) if der else 1.0) * (1 + 3 * max(abs(a), abs(b)) / (breaks[1] - breaks[0]))
        if not np.all(np.abs(vf - vg) <= tol):
            i = int(np.abs(vf - vg).argmax())
            return _viol(cls, ev, len(xs), "C07:fast-vs-general-%s" % ("periodic" if per else "clamped"),
                         "%s der=%d: fast path %r vs general path %r at x=%r (tol %.3g)" % (name, der, vf[i], vg[i], xs[i], tol),
                         {"ncells": nc, "periodic": per, "a": a, "b": b, "seed": case["seed"]})
    return result(HELD, cls=sorted(cls), events=ev, n_eval=2 * len(xs))
