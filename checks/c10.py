"""C10 -- flux-surface advection is a field-aligned shift along z.

Oracle: independent implementation of the stated formula (foot z - v*b_z(r)*dt, six-node
Lagrange stencil centred on the foot, theta-spline of row i+k evaluated on the field line through
(theta_j, z_i), periodic wrap in theta and z) built from vlib.refmath (dense periodic collocation
solve + Cox-de Boor basis + product-form Lagrange weights), plus metamorphic identities checked on
the real code alone (constants, linearity, z-shift commutation, exact circular shift).
"""
import random
from math import pi

import numpy as np

from vlib import paths, argrep
paths.setup()
from vlib.runner import result, HELD, VIOL, SKIP, INCO  # noqa: E402
from vlib import refmath as rm  # noqa: E402
from vlib import physgen as pg  # noqa: E402

ID = "C10"
LEVEL = "exploration"
NEEDS_SIMMPI = True
KEY_RIDX = "C10:gridStep/radial-index-not-passed"
RULE = ("seeded set-ups: n_theta 4-24, n_z 7-24, theta-spline degree 1-5 (3 = uniform-cubic fast path), rotational "
        "transform 0, +-0.8 or r-dependent (caller supplied), R0 1-10, dt and v of either sign with displacements of a "
        "fraction of a cell, several cells and more than one period, on-node feet; every (r,v) index of the set-up; random "
        "f.  FluxSurfaceAdvection.step compared with the independent formula on every node; identities (constants, "
        "linearity, commutation with circular z-shifts, exact circular shift for whole-cell displacement without twist) on "
        "the real code.  Grid level: FluxSurfaceAdvection.gridStep on process grids (1,1)...(3,2) with a random global field, "
        "every rank's block compared with the formula applied with the GLOBAL radius and velocity of each surface.  A class "
        "is (spline path/degree, iota class, sign, |displacement| class, on-node?, monitor) or (grid, split, iota class).")
ASSUMPTIONS = ["reference theta-spline: dense periodic collocation solve + Cox-de Boor (vlib.refmath)",
               "tolerance 100*eps*kappa*|f|*(Lebesgue sum*(1+|d|/dz) + angle rounding term)"]
REQUIRED_EVENTS = {"nodes_compared": 1, "identity_checks": 1, "multi_period_cases": 1, "on_node_cases": 1, "grid_surfaces_compared": 1}
C = 100.0


def gen_cases(tier, seed):
    rng = random.Random(101010 + seed)
    cases = []
    n = 70 if tier == "quick" else 9000
    for k in range(n):
        deg = rng.choice([1, 2, 3, 3, 3, 4, 5])
        nth = rng.randint(max(4, deg + 1), 24)
        nz = rng.randint(7, 24)
        iota = rng.choice(["zero", "zero", "pos", "neg", "rdep"])
        cases.append({"kind": "step", "deg": deg, "nth": nth, "nz": nz, "nr": rng.randint(2, 4), "nv": rng.randint(2, 5), "iota": iota,
                      "R0": rng.uniform(1, 10), "disp": rng.choice(["sub", "multi", "period", "node", "tiny"]), "sign": rng.choice([1, -1]),
                      "seed": rng.randrange(1 << 30), "cost": nth * nth * nz})
    # straight field lines with the foot ON a grid point (the exact-circular-shift clause): small, so many of them -- whether the
    # operator recognises the node depends on how displacement/dz rounds, which differs from case to case
    rngn = random.Random(rng.randrange(1 << 30) ^ 0xA11)
    for k in range(40 if tier == "quick" else 2000):
        nth, nz = rngn.randint(4, 9), rngn.randint(7, 12)
        cases.append({"kind": "step", "deg": rngn.choice([3, 3, 2, 5]) if nth > 5 else 3, "nth": nth, "nz": nz, "nr": 2, "nv": rngn.randint(3, 7), "iota": "zero",
                      "R0": rngn.uniform(1, 10), "disp": "node", "sign": rngn.choice([1, -1]), "seed": rngn.randrange(1 << 30), "cost": nth * nth * nz})
    grids = [(1, 1), (2, 1), (1, 2), (2, 2), (3, 1), (1, 3), (2, 3), (3, 2)]
    for rep in range(1 if tier == "quick" else 10):
        for (p0, p1) in grids:
            for iota in (0.0, 0.8):
                cases.append({"kind": "grid", "nprocs": [p0, p1], "iota": iota, "npts": [rng.choice([5, 6, 7]), rng.choice([5, 6, 8]), rng.choice([7, 8, 9]), rng.choice([6, 7, 8])],
                              "seed": rng.randrange(1 << 30), "cost": 3000})
    return cases


def _iota_fn(kind):
    if kind == "zero":
        return lambda r: np.full_like(r, 0.0, dtype=float)
    if kind == "pos":
        return lambda r: np.full_like(r, 0.8, dtype=float)
    if kind == "neg":
        return lambda r: np.full_like(r, -0.8, dtype=float)
    return lambda r: 0.8 + 0.3 * np.asarray(r, dtype=float)


def ref_step(F, thetaref, th, nz, dz, d, iota_r, R0):
    """F: (ntheta, nz) -> new array by the stated formula; also returns Lebesgue sum and max |angle|"""
    k0 = int(np.floor(d / dz))
    ks = [k0 + j for j in range(-2, 4)]
    w = rm.lagrange_weights([k * dz for k in ks], d)
    new = np.zeros_like(F)
    amax = 0.0
    for k, wk in zip(ks, w):
        ang = th + iota_r * k * dz / R0
        amax = max(amax, float(np.abs(ang).max()))
        E = thetaref.basis_matrix(np.mod(ang, 2 * pi))
        rows = (np.arange(nz) + k) % nz
        new += wk * (E @ F[:, rows])
    return new, float(np.abs(w).sum()), amax


def run_case(case):
    import pygyro.splines as spl
    from pygyro.advection import advection as adv
    from pygyro.model.layout import Layout
    paths.assert_repo(adv)
    if case["kind"] == "grid":
        return _grid_case(case, spl, adv)
    rs = np.random.RandomState(case["seed"] % (1 << 31))
    rng = random.Random(case["seed"])
    nr, nth, nz, nv, deg = case["nr"], case["nth"], case["nz"], case["nv"], case["deg"]
    R0 = case["R0"]
    zMax = rng.choice([2 * pi * R0, rng.uniform(5, 50)])
    vMax = rng.uniform(1, 6)
    # away from the default geometry (own generator, so the other draws stay as they were): a z domain that does not start at 0,
    # a velocity domain that is not symmetric -- only dz, the displacement and the sign of v may matter
    rng2 = random.Random(case["seed"] ^ 0x5EED8)
    zMin = rng2.choice([0.0, 0.0, -0.5 * zMax, rng2.uniform(-25, 25)])
    zMax = zMin + zMax
    vMin = -vMax * rng2.choice([1.0, 1.0, 0.4, 1.8])
    lattice = case["disp"] not in ("sub", "tiny", "multi", "period") and rng2.random() < 0.6
    if lattice:
        # whole-cell displacements for EVERY velocity of the grid (symmetric v grid, dt a multiple of dz/dv), half of them with a cell
        # width that is not a binary fraction: the quotient displacement/dz is then a whole number only up to rounding, which is the
        # situation the "foot is a grid point" branch of the operator has to recognise from the coordinates themselves
        vMin = -vMax
        if rng2.random() < 0.5:
            zMin, zMax = 0.0, nz * rng2.choice([0.1, 0.3, 0.7, 0.9])
    c = pg.make_constants(rMin=rng.uniform(0.1, 1.0), rMax=rng.uniform(3, 8), zMin=zMin, zMax=zMax, vMax=vMax, vMin=vMin, R0=R0,
                          npts=[nr, nth, nz, nv], splineDegrees=[min(3, nr - 1), deg, 3, min(3, nv - 1)], iota_fn=_iota_fn(case["iota"]))
    eta, bs, _ = pg.make_space(spl, c.npts, c.splineDegrees, pg.std_domain(c))
    dz = eta[2][1] - eta[2][0]
    # choose dt so that the largest |v| gives the wanted displacement class
    vref = float(np.abs(eta[3]).max())
    disp = case["disp"]
    if disp == "sub":
        cells = rng.uniform(0.05, 0.95)
    elif disp == "tiny":
        cells = rng.choice([1e-9, 1e-13, 0.0])
    elif disp == "multi":
        cells = rng.uniform(1.5, 6.5)
    elif disp == "period":
        cells = rng.uniform(nz + 0.5, 3.7 * nz)
    else:
        cells = float(rng.randint(1, nz + 3))
    dt = case["sign"] * cells * dz / vref
    if lattice and nv > 1:
        dt = case["sign"] * rng2.choice([1, 2, 3, 7]) * dz / float(eta[3][1] - eta[3][0]) * (0.5 if nv % 2 == 0 else 1.0) * rng2.choice([1, 1, 2])
    layout = Layout('flux_surface', [1, 1], [0, 3, 1, 2], eta, [0, 0])
    op = adv.FluxSurfaceAdvection(eta, [bs[1], bs[2]], layout, dt, c)
    # a second live operator on a LARGER grid, built and used after `op` was built: must not influence `op`
    c2 = pg.make_constants(rMin=c.rMin, rMax=c.rMax, zMin=zMin, zMax=zMax, vMax=vMax, vMin=vMin, R0=R0, npts=[nr, nth + 3, nz + 5, nv],
                           splineDegrees=[min(3, nr - 1), deg, 3, min(3, nv - 1)], iota_fn=_iota_fn(case["iota"]))
    eta2, bs2, _b2 = pg.make_space(spl, c2.npts, c2.splineDegrees, pg.std_domain(c2))
    decoy = adv.FluxSurfaceAdvection(eta2, [bs2[1], bs2[2]], Layout('flux_surface', [1, 1], [0, 3, 1, 2], eta2, [0, 0]), -0.7 * dt, c2)
    decoy.step(rs.standard_normal((nth + 3, nz + 5)), nv - 1, nr - 1)
    thetaref = pg.PeriodicSplineRef(bs[1], eta[1])
    if thetaref.kappa > 1e8:
        return result(SKIP, what="theta collocation ill conditioned")
    path = "fast" if bs[1].cubic_uniform else "general-p%d" % deg
    base = "%s/iota-%s/%s" % (path, case["iota"], "fwd" if dt > 0 else "bwd")
    cls, ev = set(), {"nodes_compared": 0, "identity_checks": 0, "multi_period_cases": 0, "on_node_cases": 0,
                      "z_origin_nonzero_cases": int(zMin != 0.0), "asymmetric_v_domain_cases": int(vMin != -vMax)}
    rvals, vvals = eta[0], eta[3]
    iota_all = c.iota(rvals)
    dth = eta[1][1] - eta[1][0]
    wit0 = {"case": case, "dt": dt, "R0": R0, "zMin": zMin, "zMax": zMax, "vMin": vMin, "vMax": vMax, "rMin": c.rMin, "rMax": c.rMax}
    for ri in range(nr):
        for vi in range(nv):
            F = rs.standard_normal((nth, nz))
            bz = float(pg.bz(rvals[ri], iota_all[ri], R0))
            d = -vvals[vi] * bz * dt
            rep = argrep.kinds(2)[(ri * nv + vi + case.get("seed", 0)) % len(argrep.kinds(2))]
            held = argrep.view_of(F, rep)      # the caller's array: fresh C-contiguous, Fortran-ordered, a window / stride / plane of a larger block
            op.step(held, vi, ri)
            got = np.array(held)
            ev["arguments_not_c_contiguous"] = ev.get("arguments_not_c_contiguous", 0) + int(rep != "c")
            cls.add("%s/argument-%s" % (base, rep))
            ref, leb, amax = ref_step(F, thetaref, eta[1], nz, dz, d, float(iota_all[ri]), R0)
            fmax = float(np.abs(F).max())
            tol = C * rm.EPS * thetaref.kappa * fmax * (leb * (2 + abs(d) / dz) + leb * amax * 2 * deg * deg / dth)
            on_node = abs(d / dz - round(d / dz)) < 1e-12
            dcls = "sub-cell" if abs(d) < dz else ("multi-cell" if abs(d) < nz * dz else "beyond-period")
            if abs(d) >= nz * dz:
                ev["multi_period_cases"] += 1
            if on_node:
                ev["on_node_cases"] += 1
            ev["nodes_compared"] += F.size
            cls.add("%s/%s/%s/formula" % (base, dcls, "on-node" if on_node else "off-node"))
            err = np.abs(got - ref)
            if not np.all(err <= tol):
                j, i = np.unravel_index(int(np.nanargmax(np.where(np.isnan(err), np.inf, err))), err.shape)
                return result(VIOL, cls=sorted(cls), events=ev, key="C10:formula/%s/%s" % ("fast" if bs[1].cubic_uniform else "general", "twist" if case["iota"] != "zero" else "notwist"),
                              what="FluxSurfaceAdvection.step(rIdx=%d,vIdx=%d) differs from the field-aligned Lagrange formula by %.3g (tol %.3g) at (theta %d, z %d); displacement %.4g cells, iota=%s"
                              % (ri, vi, float(np.nanmax(err)), tol, j, i, d / dz, case["iota"]), witness=dict(wit0, rIdx=ri, vIdx=vi))
            if ri == 0 and vi in (0, nv - 1):
                # identities on the real code
                def run(A):
                    B = np.array(A, copy=True)
                    op.step(B, vi, ri)
                    return B
                G = rs.standard_normal((nth, nz))
                a, b = rs.uniform(-2, 2, 2)
                t2 = 4 * tol
                checks = [("constants", np.abs(run(np.full((nth, nz), 1.7)) - 1.7).max()),
                          ("linearity", np.abs(run(a * F + b * G) - (a * got + b * run(G))).max() / (abs(a) + abs(b) + 1)),
                          ("z-shift", np.abs(run(np.roll(F, 3, axis=1)) - np.roll(got, 3, axis=1)).max())]
                if on_node and case["iota"] == "zero":
                    k = int(round(d / dz))
                    checks.append(("circular-shift", np.abs(got - F[:, (np.arange(nz) + k) % nz]).max()))
                for nm, e in checks:
                    ev["identity_checks"] += 1
                    cls.add("%s/%s/identity-%s" % (base, dcls, nm))
                    if not e <= t2:
                        return result(VIOL, cls=sorted(cls), events=ev, key="C10:identity-%s" % nm,
                                      what="identity '%s' violated by %.3g (tol %.3g); displacement %.4g cells, iota=%s" % (nm, e, t2, d / dz, case["iota"]),
                                      witness=dict(wit0, rIdx=ri, vIdx=vi))
    return result(HELD, cls=sorted(cls), events=ev, n_eval=ev["nodes_compared"])


def _grid_case(case, spl, adv):
    from mpi4py import MPI
    from vlib import simrun
    npts, nprocs, iota = case["npts"], case["nprocs"], case["iota"]
    if not simrun.admissible(npts, nprocs):
        return result(SKIP, what="process grid not admissible")
    P = nprocs[0] * nprocs[1]
    c = simrun.small_constants(npts, iota=iota, seed=case["seed"] % 1000)
    rs = np.random.RandomState(case["seed"] % (1 << 31))
    F0 = rs.standard_normal(npts)
    dt = 0.9

    def prog(rank):
        comm = MPI.COMM_WORLD
        sim = simrun.Sim(comm, c, nprocs, layout='flux_surface', save=False, with_phi=False)
        sim.scatter(sim.f, F0)
        op = adv.FluxSurfaceAdvection(sim.eta, sim.f.get2DSpline(), sim.f.getLayout('flux_surface'), dt, c)
        op.gridStep(sim.f)
        return sim.block(sim.f)

    w = MPI.run_world(P, prog, schedule="random", seed=case["seed"], timeout=800)
    ev = dict(w.events)
    split = ("r" if nprocs[0] > 1 else "") + ("v" if nprocs[1] > 1 else "") or "none"
    base = "grid/split-%s/iota-%s" % (split, "zero" if iota == 0 else "nonzero")
    err = w.first_error()
    wit = {"case": case}
    if err is not None:
        wit["traceback"] = (w.tracebacks[err[0]] or "")[-2500:]
        return result(VIOL, cls=[base + "/exception"], events=ev, key="C10:grid-exception:%s" % type(err[1]).__name__,
                      what="rank %d raised %r on process grid %r" % (err[0], err[1], nprocs), witness=wit)
    G, cover = simrun.assemble(list(w.results), tuple(npts))
    if not (cover == 1).all():
        return result(VIOL, cls=[base], events=ev, key="C10:grid-coverage", what="blocks do not tile the global grid", witness=wit)
    eta, bs, _ = pg.make_space(spl, c.npts, c.splineDegrees, pg.std_domain(c))
    thetaref = pg.PeriodicSplineRef(bs[1], eta[1])
    dz = eta[2][1] - eta[2][0]
    dth = eta[1][1] - eta[1][0]
    iota_all = c.iota(eta[0])
    nr, nth, nz, nv = npts
    ev["grid_surfaces_compared"] = 0
    ev["nodes_compared"] = 0
    worst = (0.0, 0.0, None)
    for i in range(nr):
        bz = float(pg.bz(eta[0][i], iota_all[i], c.R0))
        for j in range(nv):
            d = -eta[3][j] * bz * dt
            ref, leb, amax = ref_step(F0[i, :, :, j], thetaref, eta[1], nz, dz, d, float(iota_all[i]), c.R0)
            tol = C * rm.EPS * thetaref.kappa * float(np.abs(F0).max()) * (leb * (2 + abs(d) / dz) + leb * amax * 18 / dth)
            e = float(np.abs(G[i, :, :, j] - ref).max())
            ev["grid_surfaces_compared"] += 1
            ev["nodes_compared"] += nth * nz
            if not e <= tol and not e - tol <= worst[0] - worst[1]:
                worst = (e, tol, (i, j))
    if worst[2] is not None:
        key = KEY_RIDX if iota != 0 else "C10:grid-formula"
        return result(VIOL, cls=[base], events=ev, key=key,
                      what="FluxSurfaceAdvection.gridStep on process grid %r (iota=%g): surface (r index %d, v index %d) differs from the formula with that surface's own radius/velocity by %.3g (tol %.3g)"
                      % (nprocs, iota, worst[2][0], worst[2][1], worst[0], worst[1]), witness=wit)
    return result(HELD, cls=[base], events=ev, n_eval=ev["nodes_compared"], sched=str(hash(w.arrival_signature())))
