"""C18 -- checkpoints round-trip exactly and a restarted run continues the original one.

(1) writeH5Dataset on P1 simulated ranks through the mpio emulation, then Grid.loadFromFile and
    setupFromFile on P2 ranks: assembled global field bit-identical, dataset stored in the recorded
    layout's global index order with the Layout attribute, hyperslabs disjoint and covering;
(2) constants: setupSave -> get_constants reproduces every public attribute; key order and symbolic
    expressions do not matter;
(3) selection of the checkpoint with the largest time (or the requested one) among times of different
    digit counts;
(4) driver continuity: fullSimulation.main() for N steps, restarted for M more, vs N+M steps in one go.
"""
import json
import os
import random
import shutil
import tempfile

import numpy as np

from vlib import paths
paths.setup()
from vlib.runner import result, HELD, VIOL, SKIP, INCO  # noqa: E402

ID = "C18"
LEVEL = "exploration"
NEEDS_SIMMPI = True
RULE = ("(1) grids [6-8]^4 written in each of the three layouts (and the complex 3-D potential) on P1 in {1,2,3,4,6} ranks and "
        "read back on P2 in {1,2,3,4,6} ranks via Grid.loadFromFile and via setupFromFile (with/without layout change), random "
        "data; (2) constants objects with randomly perturbed values (incl. a peak radius different from the midpoint) saved by "
        "setupSave and re-read; the same file with keys in seeded-random order; files using symbolic expressions in random "
        "order, also with 17-digit base values referenced by expressions; (3) folders holding checkpoints at times of 1-7 digits (time 0 included), restart and "
        "Grid.loadFromFile with and without explicit time; symmetric and asymmetric velocity domains (restarted grid must have the coordinates and knots of the original); (4) "
        "driver: save interval 1-4, every split N+M <= 4 (N,M >= 1), grid 8^4, P in {1,2,4}, final grid and potential files of "
        "split vs unsplit run compared.  A class is (monitor, layout/P1->P2 | key-order kind | digit pattern | (S,N,M,P)).")
ASSUMPTIONS = ["h5py 'mpio' driver emulated: collective open/create/attrs/close with argument agreement, independent disjoint hyperslab writes (parallel HDF5 itself is not installed)",
               "simulated MPI (self-tested)", "integral time steps (as in the defaults and the shipped set-ups)"]
REQUIRED_EVENTS = {"roundtrip_fields_compared": 1, "constants_attributes_compared": 1, "selection_checks": 1, "driver_continuity_runs": 1, "different_P_roundtrips": 1}
CASE_TIMEOUT = {"quick": 900, "thorough": 2400}
KEY_RP = "C18:constants/rp-overridden-by-rMin-rMax-setter"
KEY_ZERODIV = "C18:driver/first-iteration-is-save-step/ZeroDivisionError"
KEY_7DIGIT = "C18:selection/lexicographic-max-with-more-than-6-digits"


def gen_cases(tier, seed):
    rng = random.Random(181818 + seed)
    cases = []
    Ps = [1, 2, 3, 4, 6]
    n = 12 if tier == "quick" else 600
    for k in range(n):
        cases.append({"kind": "roundtrip", "npts": [rng.randint(6, 8) for _ in range(4)], "P1": rng.choice(Ps), "P2": rng.choice(Ps),
                      "layout": ["flux_surface", "v_parallel", "poloidal"][k % 3], "seed": rng.randrange(1 << 30), "cost": 100})
    for k in range(16 if tier == "quick" else 900):
        cases.append({"kind": "constants", "mode": ["defaults", "perturbed", "perturbed-rp", "shuffled", "symbolic", "symbolic-long", "partial", "partial"][k % 8], "seed": rng.randrange(1 << 30), "cost": 2})
    for k in range(6 if tier == "quick" else 150):
        times = sorted(set(rng.choice([0, 2, 8, 10, 14, 100, 250, 1000, 4096, 99998, 100000]) for _ in range(rng.randint(2, 5))))
        if k % 2 == 0:
            times = sorted(set(times + [0]))
        if k % 3 == 2:
            times = sorted(set(times + [999998, 1000000]))
        cases.append({"kind": "selection", "times": times, "P": rng.choice([1, 2]), "seed": rng.randrange(1 << 30), "cost": 30})
    combos = []
    for S in (1, 2, 3, 4):
        for N in (1, 2, 3):
            for M in (1, 2, 3):
                if N + M <= 4:
                    combos.append((S, N, M))
    rng.shuffle(combos)
    # (every combination runs in both tiers: the interesting ones -- first part not a multiple of the save interval, second part a
    #  multiple of it, and the reverse -- are few and easily missed by sampling)
    for i, (S, N, M) in enumerate(combos):
        for P in ([[1, 2, 4][i % 3]] if tier == "quick" else [1, 2, 4]):
            cases.append({"kind": "driver", "S": S, "N": N, "M": M, "P": P, "dt": rng.choice([1, 2]), "seed": rng.randrange(1 << 30), "cost": 3000})
    return cases


def run_case(case):
    from vlib import simh5
    simh5.install()
    tmp = tempfile.mkdtemp(prefix="verif_c18_")
    try:
        if case["kind"] == "roundtrip":
            return _roundtrip(case, tmp)
        if case["kind"] == "constants":
            return _constants(case, tmp)
        if case["kind"] == "selection":
            return _selection(case, tmp)
        return _driver(case, tmp)
    finally:
        shutil.rmtree(tmp, ignore_errors=True)


def _admissible_P(npts, P):
    from pygyro.model.process_grid import compute_2d_process_grid
    try:
        compute_2d_process_grid(npts, P)
        return True
    except RuntimeError:
        return False


def _roundtrip(case, tmp):
    from mpi4py import MPI
    from vlib import simh5, simrun, driver_run as dr, layout_oracle as lo
    from pygyro.initialisation import setups
    from pygyro.model.grid import Grid
    paths.assert_repo(setups)
    npts, P1, P2, layout = case["npts"], case["P1"], case["P2"], case["layout"]
    if not _admissible_P(npts, P1) or not _admissible_P(npts, P2):
        return result(SKIP, what="no process grid for these sizes")
    cfile = os.path.join(tmp, "c.json")
    rp_given = 2.0 + (case["seed"] % 7) * 0.25 if case["seed"] % 2 else None        # midpoint would be 3.2
    extra = {"rp": rp_given} if rp_given else {}
    if case["seed"] % 5 in (1, 2):
        extra["CN0"] = round(0.9 + (case["seed"] % 97) * 1e-3, 11)          # normalisation given explicitly (not the value the library would compute)
    if case["seed"] % 3 == 0:
        extra.update({"vMin": -5.0 + (case["seed"] % 5) * 0.25, "vMax": 4.5 + (case["seed"] % 4) * 0.5})       # asymmetric velocity domain
    dr.write_constants(cfile, npts, dt=2, extra=extra or None,
                       order=["rp", "npts", "rMin", "rMax", "splineDegrees", "dt", "zMin", "R0", "zMax", "vMax", "vMin", "eps", "m", "n", "iotaVal"] if case["seed"] % 4 == 1 else None)
    folder = os.path.join(tmp, "sim")
    os.mkdir(folder)
    shutil.copy(cfile, os.path.join(folder, "initParams.json"))
    rs = np.random.RandomState(case["seed"] % (1 << 31))
    F = rs.standard_normal(npts)
    PHI = rs.standard_normal(npts[:3]) + 1j * rs.standard_normal(npts[:3])
    t_write = int(rs.choice([0, 6, 40, 1234]))
    t_named = [int(x) for x in (rs.choice([2, 8, 50]), rs.choice([2000, 3000, 100000]))]      # latest 'f0' is later than the latest 'grid'
    del simh5.LOG[:]

    def writer(rank):
        comm = MPI.COMM_WORLD
        grid, c, _t = setups.setupCylindricalGrid(layout, constantFile=cfile, comm=comm, allocateSaveMemory=True)
        simrun.Sim.scatter(grid, F)
        grid.writeH5Dataset(folder, t_write)
        # complex 3-D potential written with another name convention through a swapper-backed grid
        sim = simrun.Sim(comm, c, grid.getLayout(layout).nprocs[:2], layout='v_parallel', save=False)
        sim.phi.setLayout('v_parallel_2d')
        sim.scatter(sim.phi, PHI)
        sim.phi.writeH5Dataset(folder, t_write, "phi")
        # a second family of 4-D snapshots under another name, at other times and with other contents
        for k_, tt in enumerate(t_named):
            simrun.Sim.scatter(grid, F + 10.0 * (k_ + 1))
            grid.writeH5Dataset(folder, tt, "f0")
        simrun.Sim.scatter(grid, F)
        return True

    w = MPI.run_world(P1, writer, schedule="random", seed=case["seed"], timeout=600)
    ev = dict(w.events)
    wit = {"case": case, "t": t_write}
    base = "roundtrip/%s/P%d->P%d" % (layout, P1, P2)
    err = w.first_error()
    if err is not None:
        wit["traceback"] = (w.tracebacks[err[0]] or "")[-2500:]
        return result(VIOL, cls=[base + "/exception"], events=ev, key="C18:write-exception:%s" % type(err[1]).__name__, what="writing on %d ranks: rank %d raised %r" % (P1, err[0], err[1]), witness=wit)
    # hyperslabs of every dataset disjoint and covering
    for fname, shape in (("grid_%06d.h5" % t_write, None), ("phi_%06d.h5" % t_write, None)):
        # (writes are attributed by file name; an implementation that writes under a temporary name and renames afterwards is
        #  matched by containment, and if no write can be attributed at all the partition monitor has nothing to judge -- the
        #  content comparison below still does)
        boxes = [b for (fn, ds, rk, b) in simh5.LOG if fname in os.path.basename(fn)]
        data, order = dr.read_h5(os.path.join(folder, fname))
        cover = np.zeros(data.shape, dtype=int)
        for b in boxes:
            cover[tuple(slice(a, e) for a, e in b)] += 1
        ev["hyperslab_partitions_checked"] = ev.get("hyperslab_partitions_checked", 0) + (1 if boxes else 0)
        if boxes and not (cover == 1).all():
            return result(VIOL, cls=[base], events=ev, key="C18:hyperslabs-not-a-partition", what="%s: hyperslab writes overlap or leave gaps (coverage min %d max %d)" % (fname, cover.min(), cover.max()), witness=wit)
    data, order = dr.read_h5(os.path.join(folder, "grid_%06d.h5" % t_write))
    from vlib.simrun import PHYS
    if list(order) != list(PHYS[layout]):
        return result(VIOL, cls=[base], events=ev, key="C18:layout-attribute", what="Layout attribute %r, grid was written in %s %r" % (order, layout, PHYS[layout]), witness=wit)
    if not lo.bits_equal(data, np.ascontiguousarray(np.transpose(F, PHYS[layout]))):
        return result(VIOL, cls=[base], events=ev, key="C18:file-content", what="dataset is not the global field in the recorded layout's index order", witness=wit)
    pdata, porder = dr.read_h5(os.path.join(folder, "phi_%06d.h5" % t_write))
    if list(porder) != [0, 2, 1] or not lo.bits_equal(pdata, np.ascontiguousarray(np.transpose(PHI, [0, 2, 1]))):
        return result(VIOL, cls=[base], events=ev, key="C18:file-content-phi", what="complex potential dataset differs from the global field", witness=wit)
    want_layout = ["flux_surface", "v_parallel", "poloidal"][case["seed"] % 3]

    def reader(rank):
        comm = MPI.COMM_WORLD
        out = {}
        grid, c, _t = setups.setupCylindricalGrid(layout, constantFile=cfile, comm=comm)
        grid.getAllData()[:] = -1.0
        grid.loadFromFile(folder, t_write)
        out["load_explicit"] = simrun.Sim.block(grid)
        grid.getAllData()[:] = -1.0
        grid.loadFromFile(folder)
        out["load_latest"] = simrun.Sim.block(grid)
        g2, c2, t2 = setups.setupFromFile(folder, comm=comm, allocateSaveMemory=True)
        out["setup_same"] = simrun.Sim.block(g2)
        out["t"] = t2
        out["lay"] = g2.currentLayout
        g3, c3, t3 = setups.setupFromFile(folder, comm=comm, allocateSaveMemory=True, layout=want_layout)
        out["setup_layout"] = simrun.Sim.block(g3)
        out["lay3"] = g3.currentLayout
        out["rp"] = (c.rp, c2.rp, c3.rp)
        out["consts"] = [_public(c), _public(c2), _public(c3)]
        # named families: latest and explicit time, 4-D real and the complex 3-D potential
        grid.getAllData()[:] = -1.0
        grid.loadFromFile(folder, nameConvention="f0")
        out["named_latest"] = simrun.Sim.block(grid)
        grid.getAllData()[:] = -1.0
        grid.loadFromFile(folder, t_named[0], "f0")
        out["named_first"] = simrun.Sim.block(grid)
        sim = simrun.Sim(comm, c, grid.getLayout(layout).nprocs[:2], layout='v_parallel', save=False)
        sim.phi.setLayout('v_parallel_2d')
        sim.phi.getAllData()[:] = -1.0
        sim.phi.loadFromFile(folder, nameConvention="phi")
        out["phi_latest"] = simrun.Sim.block(sim.phi)
        out["eta"] = [[np.array(x, dtype=float) for x in g.eta_grid] for g in (grid, g2, g3)]
        out["knots"] = [[np.array(g.getSpline(i).knots, dtype=float) for i in range(4)] for g in (grid, g2, g3)]
        return out

    w2 = MPI.run_world(P2, reader, schedule="random", seed=case["seed"] + 1, timeout=600)
    for k, v in w2.events.items():
        ev[k] = ev.get(k, 0) + v
    err = w2.first_error()
    if err is not None:
        wit["traceback"] = (w2.tracebacks[err[0]] or "")[-2500:]
        return result(VIOL, cls=[base + "/exception"], events=ev, key="C18:read-exception:%s" % type(err[1]).__name__, what="reading on %d ranks: rank %d raised %r" % (P2, err[0], err[1]), witness=wit)
    ev["roundtrip_fields_compared"] = 0
    ev["different_P_roundtrips"] = int(P1 != P2)
    for name in ("load_explicit", "load_latest", "setup_same", "setup_layout"):
        G, cover = simrun.assemble([r[name] for r in w2.results], tuple(npts))
        ev["roundtrip_fields_compared"] += 1
        if not (cover == 1).all() or not lo.bits_equal(G, F):
            return result(VIOL, cls=[base], events=ev, key="C18:roundtrip/%s" % name, what="%s on %d ranks after writing on %d ranks (layout %s): global field not bit-identical (max diff %.3g)"
                          % (name, P2, P1, layout, float(np.abs(G - F).max())), witness=wit)
    for name, want_ in (("named_latest", F + 20.0), ("named_first", F + 10.0)):
        G, cover = simrun.assemble([r[name] for r in w2.results], tuple(npts))
        ev["roundtrip_fields_compared"] += 1
        if not (cover == 1).all() or not lo.bits_equal(G, want_):
            return result(VIOL, cls=[base], events=ev, key="C18:roundtrip/named-family", what="Grid.loadFromFile(%s) of the snapshot family 'f0' (times %r, next to 'grid' checkpoints at %r) did not return its data (max diff %.3g)"
                          % ("latest" if name == "named_latest" else "time %d" % t_named[0], t_named, t_write, float(np.abs(G - want_).max())), witness=wit)
    G, cover = simrun.assemble([r["phi_latest"] for r in w2.results], tuple(npts[:3]))
    ev["roundtrip_fields_compared"] += 1
    if not (cover == 1).all() or not lo.bits_equal(G, PHI):
        return result(VIOL, cls=[base], events=ev, key="C18:roundtrip/named-family", what="Grid.loadFromFile(nameConvention='phi') did not return the stored complex potential", witness=wit)
    for r_ in w2.results:
        c0 = r_["consts"][0]
        for which, cc in (("setupFromFile", r_["consts"][1]), ("setupFromFile(layout=...)", r_["consts"][2])):
            for k, v in c0.items():
                ev["roundtrip_fields_compared"] += 1
                if k in ("rp",):
                    continue                         # judged separately below (listed fix)
                if not (cc.get(k) == v or (isinstance(v, float) and v != v and cc.get(k) != cc.get(k))):
                    return result(VIOL, cls=[base], events=ev, key="C18:restart-constants/%s" % k,
                                  what="%s: constant %s is %r, the run was set up with %r (constants file %r)" % (which, k, cc.get(k), v, extra), witness=wit)
    r0 = w2.results[0]
    if r0["t"] != t_write or r0["lay"] != layout or r0["lay3"] != want_layout:
        return result(VIOL, cls=[base], events=ev, key="C18:restart-metadata", what="setupFromFile returned time %r / layouts %r,%r; expected %r / %r,%r" % (r0["t"], r0["lay"], r0["lay3"], t_write, layout, want_layout), witness=wit)
    for r_ in w2.results:
        for what_, lists in (("coordinates", r_["eta"]), ("spline knots", r_["knots"])):
            for which, other in (("setupFromFile", lists[1]), ("setupFromFile(layout=...)", lists[2])):
                for i in range(4):
                    ev["roundtrip_fields_compared"] += 1
                    if lists[0][i].shape != other[i].shape or not np.array_equal(lists[0][i], other[i]):
                        return result(VIOL, cls=[base], events=ev, key="C18:restart-grid-differs/%s" % what_.split()[-1],
                                      what="%s: %s of dimension %d differ from those of the original set-up (max difference %.3g); constants %r"
                                      % (which, what_, i, float(np.abs(lists[0][i] - other[i]).max()) if lists[0][i].shape == other[i].shape else -1, extra), witness=wit)
    if rp_given is not None and any(x != rp_given for x in r0["rp"]):
        return result(VIOL, cls=[base], events=ev, key=KEY_RP, what="peak radius rp=%r of the constants file is %r after setupCylindricalGrid / setupFromFile" % (rp_given, r0["rp"]), witness=wit)
    return result(HELD, cls=[base, "roundtrip/%s/%s" % (layout, "sameP" if P1 == P2 else "differentP")], events=ev, n_eval=ev["roundtrip_fields_compared"])


def _public(c):
    out = {}
    for f in dir(c):
        v = getattr(c, f)
        if not callable(v) and f[0] != "_":
            out[f] = v
    return out


def _constants(case, tmp):
    from pygyro.initialisation import constants as cm
    from pygyro.utilities.savingTools import setupSave
    paths.assert_repo(cm)
    rng = random.Random(case["seed"])
    mode = case["mode"]
    ev = {"constants_attributes_compared": 0}
    c = cm.Constants()
    if mode == "partial":
        # only SOME constants moved away from their defaults, the others left alone (radial limits first: their setters move rp)
        setters = [("rMin", lambda: rng.uniform(0.1, 1.0)), ("rMax", lambda: rng.uniform(9, 20)), ("vMax", lambda: rng.uniform(3, 9)), ("vMin", lambda: -rng.uniform(2, 9)),
                   ("R0", lambda: rng.uniform(100, 300)), ("zMin", lambda: rng.uniform(-50, 50)), ("zMax", lambda: rng.uniform(600, 2000)), ("B0", lambda: rng.choice([0.5, 2.0])),
                   ("eps", lambda: rng.choice([1e-6, 0.003])), ("m", lambda: rng.randint(1, 20)), ("n", lambda: rng.randint(0, 3)), ("iotaVal", lambda: 0.8),
                   ("dt", lambda: rng.choice([1, 5])), ("npts", lambda: [rng.choice([16, 32, 48]) for _ in range(4)]), ("kN0", lambda: rng.uniform(0.01, 0.1)),
                   ("kTi", lambda: rng.uniform(0.05, 0.09)), ("kTe", lambda: rng.uniform(0.05, 0.09)), ("deltaRTe", lambda: rng.uniform(0.8, 2.0)),
                   ("deltaRTi", lambda: rng.uniform(0.8, 2.0)), ("deltaRN0", lambda: rng.uniform(1.5, 4.0)), ("CTi", lambda: rng.uniform(0.8, 1.3)), ("CTe", lambda: rng.uniform(0.8, 1.3)),
                   ("rp", lambda: c.rMin + rng.uniform(0.2, 0.45) * (c.rMax - c.rMin))]
        for name, fn in setters:
            if hasattr(c, name) and rng.random() < (0.6 if name == "rp" else 0.35):
                setattr(c, name, fn())
        c.getCN0()
    elif mode != "defaults":
        c.rMin = rng.uniform(0.1, 1.0)
        c.rMax = rng.uniform(5, 20)
        c.vMax = rng.uniform(3, 9)
        c.vMin = -c.vMax
        c.R0 = rng.uniform(100, 300)
        c.zMax = c.R0 * 6.0
        c.eps = rng.choice([1e-6, 0.003, 0.5])
        c.m = rng.randint(1, 20)
        c.n = rng.randint(0, 3)
        c.iotaVal = rng.choice([0.0, 0.8])
        c.dt = rng.choice([1, 2, 5])
        c.npts = [rng.choice([16, 32, 48]) for _ in range(4)]
        c.kN0 = rng.uniform(0.01, 0.1)
        if mode == "perturbed-rp":
            c.rp = c.rMin + rng.uniform(0.2, 0.45) * (c.rMax - c.rMin)
        c.getCN0()
    folder = os.path.join(tmp, "save")
    want = _public(c)
    if mode == "symbolic-long":
        # base constants with all 17 significant digits, referenced by expressions (also through other expressions);
        # reference: the same expressions evaluated by Python on the float values themselves
        from math import pi
        for variant in (case["seed"] % 2, 1 - case["seed"] % 2):      # both forms of the file in every case
            b = {"R0": rng.uniform(100, 300), "rMin": rng.uniform(0.1, 1.0), "rMax": rng.uniform(5, 20), "vMax": rng.uniform(3, 9), "deltaRTi": rng.uniform(0.5, 3.0),
                 "kTi": rng.randint(1, 28) / 29.0, "deltaRN0": rng.uniform(1.0, 4.0) / 3.0}
            exprs = {"vMin": ("-vMax", -b["vMax"]), "zMax": ("2*pi*R0", 2 * pi * b["R0"]), "deltaRTe": ("deltaRTi/3", b["deltaRTi"] / 3), "kTe": ("kTi*7", b["kTi"] * 7),
                     "deltaR": ("4.0*deltaRN0/deltaRTi", 4.0 * b["deltaRN0"] / b["deltaRTi"]), "kN0": ("kTe/(R0-rMax)", b["kTi"] * 7 / (b["R0"] - b["rMax"]))}
            if variant:
                # the outer radius given through an expression, together with an explicit peak radius that is NOT the mid radius
                width = rng.randint(5, 14) + 0.5
                exprs["rMax"] = ("rMin+%r" % width, b["rMin"] + width)
                del b["rMax"]
                b["rp"] = b["rMin"] + rng.uniform(0.2, 0.4) * width
                exprs["kN0"] = ("kTe/(R0-rMin)", b["kTi"] * 7 / (b["R0"] - b["rMin"]))
            d = dict(b, npts=[16, 16, 16, 16], dt=2, **{k: v[0] for k, v in exprs.items()})
            keys = list(d)
            for rep in range(4):
                rng.shuffle(keys)
                p = os.path.join(tmp, "syml%d.json" % rep)
                with open(p, "w") as f:
                    json.dump({k: d[k] for k in keys}, f)
                r = _public(cm.get_constants(p))
                for k, v in list(b.items()) + [(k, v[1]) for k, v in exprs.items()]:
                    ev["constants_attributes_compared"] += 1
                    if not abs(r[k] - v) <= 1e-14 * abs(v):
                        return result(VIOL, cls=["constants/symbolic-long"], events=ev, key="C18:constants/symbolic-expression" if k in exprs else "C18:constants/%s" % k,
                                      what="constant %s%s evaluated to %r, expected %r (relative difference %.3g)" % (k, " = '%s'" % exprs[k][0] if k in exprs else "", r[k], v, abs(r[k] - v) / abs(v)), witness={"case": case, "file": d})
        return result(HELD, cls=["constants/symbolic-long"], events=ev, n_eval=ev["constants_attributes_compared"])
    if mode == "symbolic":
        d = {"R0": 200.0, "rMin": 0.5, "rMax": 12.5, "vMax": 6.0, "vMin": "-vMax", "zMax": "2*pi*R0", "deltaRTi": 1.5, "deltaRTe": "deltaRTi", "deltaRN0": "2.0*deltaRTe",
             "deltaR": "4.0*deltaRN0/deltaRTi", "kTi": 0.3, "kTe": "kTi", "npts": [16, 16, 16, 16], "dt": 2}
        keys = list(d)
        results = []
        for rep in range(4):
            rng.shuffle(keys)
            p = os.path.join(tmp, "sym%d.json" % rep)
            with open(p, "w") as f:
                json.dump({k: d[k] for k in keys}, f)
            results.append(_public(cm.get_constants(p)))
        from math import pi
        exp = {"vMin": -6.0, "zMax": 2 * pi * 200.0, "deltaRTe": 1.5, "deltaRN0": 3.0, "deltaR": 4.0 * 3.0 / 1.5, "kTe": 0.3}
        for r in results:
            for k, v in exp.items():
                ev["constants_attributes_compared"] += 1
                if not abs(r[k] - v) <= 1e-12 * abs(v):
                    return result(VIOL, cls=["constants/symbolic"], events=ev, key="C18:constants/symbolic-expression", what="symbolic constant %s evaluated to %r, expected %r" % (k, r[k], v), witness={"case": case})
            for k in results[0]:
                if r[k] != results[0][k]:
                    return result(VIOL, cls=["constants/symbolic"], events=ev, key="C18:constants/key-order-dependence", what="constant %s depends on the key order of the file: %r vs %r" % (k, r[k], results[0][k]), witness={"case": case})
        return result(HELD, cls=["constants/symbolic"], events=ev, n_eval=ev["constants_attributes_compared"])
    setupSave(c, folder)
    path = os.path.join(folder, "initParams.json")
    if mode == "shuffled":
        with open(path) as f:
            d = json.load(f)
        keys = list(d)
        rng.shuffle(keys)
        with open(path, "w") as f:
            json.dump({k: d[k] for k in keys}, f)
    got = _public(cm.get_constants(path))
    for k, v in want.items():
        ev["constants_attributes_compared"] += 1
        g = got.get(k)
        ok = (g == v) or (isinstance(v, float) and isinstance(g, (int, float)) and abs(g - v) <= 1e-15 * abs(v))
        if not ok:
            key = KEY_RP if k in ("rp", "CN0") and mode in ("perturbed-rp", "shuffled", "partial") and abs(want["rp"] - 0.5 * (want["rMin"] + want["rMax"])) > 1e-9 else "C18:constants/%s" % k
            return result(VIOL, cls=["constants/%s" % mode], events=ev, key=key, what="constant %s saved as %r is read back as %r (mode %s)" % (k, v, g, mode), witness={"case": case})
    return result(HELD, cls=["constants/%s" % mode], events=ev, n_eval=ev["constants_attributes_compared"])


def _selection(case, tmp):
    from mpi4py import MPI
    from vlib import simrun, driver_run as dr
    from pygyro.initialisation import setups
    import h5py
    npts = [6, 6, 7, 6]
    times, P = case["times"], case["P"]
    cfile = os.path.join(tmp, "c.json")
    dr.write_constants(cfile, npts, dt=2)
    folder = os.path.join(tmp, "sim")
    os.mkdir(folder)
    shutil.copy(cfile, os.path.join(folder, "initParams.json"))
    if case["seed"] % 3 == 0:
        # a folder that holds the parameter file but no checkpoint yet: the restart entry point starts the run (time 0, the
        # initial distribution of the fresh set-up)
        def prog0(rank):
            comm = MPI.COMM_WORLD
            g, c, t = setups.setupFromFile(folder, comm=comm, layout='v_parallel')
            g0, _c, _t = setups.setupCylindricalGrid('v_parallel', constantFile=cfile, comm=comm)
            return t, bool(np.array_equal(g.getAllData(), g0.getAllData())), g.currentLayout
        w0 = MPI.run_world(P, prog0, timeout=300)
        e0 = w0.first_error()
        if e0 is not None:
            return result(VIOL, cls=["selection/no-checkpoint-yet"], events=dict(w0.events), key="C18:selection-exception:%s" % type(e0[1]).__name__,
                          what="setupFromFile on a folder without checkpoints: rank %d raised %r" % (e0[0], e0[1]), witness={"case": case, "traceback": (w0.tracebacks[e0[0]] or "")[-2000:]})
        for t0, same, lay0 in w0.results:
            if t0 != 0 or not same or lay0 != 'v_parallel':
                return result(VIOL, cls=["selection/no-checkpoint-yet"], events=dict(w0.events), key="C18:selection/no-checkpoint-yet",
                              what="setupFromFile on a folder without checkpoints returned time %r, layout %r, initial data equal to the fresh set-up: %r" % (t0, lay0, same), witness={"case": case})
    # the checkpoints are written in a shuffled order (as after a restart from an older time point that re-writes
    # later ones): modification order and directory order say nothing about the simulation time
    import time as _time
    write_order = list(times)
    random.Random(case["seed"] ^ 0x51).shuffle(write_order)
    for t in write_order:
        _time.sleep(0.02)
        with h5py.File(os.path.join(folder, "grid_{:06}.h5".format(t)), "w") as f:
            shape = [npts[i] for i in [0, 2, 1, 3]]
            d = f.create_dataset("dset", shape, dtype=float)
            d[...] = float(t)
            d.attrs.create("Layout", np.array([0, 2, 1, 3]), (4,), h5py.h5t.STD_I32BE)
    rng = random.Random(case["seed"])
    pick = rng.choice(times)
    others = sorted(set([times[0], times[-1], rng.choice(times)]))        # explicit requests, the smallest (often time 0) included

    def prog(rank):
        comm = MPI.COMM_WORLD
        g, c, t = setups.setupFromFile(folder, comm=comm, layout='v_parallel')
        g2, c2, t2 = setups.setupFromFile(folder, comm=comm, layout='v_parallel', timepoint=pick)
        g3, _c, _t = setups.setupCylindricalGrid('v_parallel', constantFile=cfile, comm=comm)
        g3.loadFromFile(folder)
        v3 = float(g3.getAllData().flat[0])
        more = []
        for tp in others:
            g3.getAllData()[:] = -7.0
            g3.loadFromFile(folder, tp)
            g4, _c4, t4 = setups.setupFromFile(folder, comm=comm, layout='v_parallel', timepoint=tp)
            more.append((tp, float(g3.getAllData().flat[0]), t4, float(g4.getAllData().flat[0])))
        return (t, float(g.getAllData().flat[0]), t2, float(g2.getAllData().flat[0]), v3, more)

    w = MPI.run_world(P, prog, timeout=300)
    ev = dict(w.events)
    ev["selection_checks"] = 0
    digits = sorted(set(len(str(t)) for t in times))
    cls = ["selection/digits-%s" % "-".join(map(str, digits))]
    err = w.first_error()
    wit = {"case": case, "pick": pick}
    if err is not None:
        wit["traceback"] = (w.tracebacks[err[0]] or "")[-2500:]
        return result(VIOL, cls=cls, events=ev, key="C18:selection-exception:%s" % type(err[1]).__name__, what="rank %d raised %r" % (err[0], err[1]), witness=wit)
    tmax = max(times)
    for r in w.results:
        t, v, t2, v2, v3, more = r
        ev["selection_checks"] += 3 + 2 * len(more)
        for tp, vload, t4, v4 in more:
            if vload != float(tp) or t4 != tp or v4 != float(tp):
                return result(VIOL, cls=cls, events=ev, key="C18:selection-timepoint", what="requested time %r among %r: Grid.loadFromFile gave the data of time %r, setupFromFile resumed at %r with the data of %r"
                              % (tp, times, vload, t4, v4), witness=wit)
        key = KEY_7DIGIT if tmax >= 1000000 else "C18:selection"
        if t != tmax or v != float(tmax):
            return result(VIOL, cls=cls, events=ev, key=key, what="restart among checkpoints %r resumed at time %r with the data of time %r; the largest is %r" % (times, t, v, tmax), witness=wit)
        if t2 != pick or v2 != float(pick):
            return result(VIOL, cls=cls, events=ev, key="C18:selection-timepoint", what="requested timepoint %r, got time %r / data of %r" % (pick, t2, v2), witness=wit)
        if v3 != float(tmax):
            return result(VIOL, cls=cls, events=ev, key=key.replace("selection", "selection-loadFromFile") if tmax < 1000000 else key, what="Grid.loadFromFile without time loaded the data of time %r; the largest is %r" % (v3, tmax), witness=wit)
    return result(HELD, cls=cls, events=ev, n_eval=ev["selection_checks"])


def _driver(case, tmp):
    from vlib import driver_run as dr, layout_oracle as lo
    S, N, M, P, dt = case["S"], case["N"], case["M"], case["P"], case["dt"]
    npts = [8, 8, 8, 8]
    cfile = os.path.join(tmp, "c.json")
    dr.write_constants(cfile, npts, dt=dt, extra={"vMin": -3.75, "vMax": 4.5} if case["seed"] % 2 else None)
    A, B = os.path.join(tmp, "A"), os.path.join(tmp, "B")
    ev = {"driver_continuity_runs": 0}
    cls = ["driver/S%d/N%d+M%d/P%d" % (S, N, M, P)]
    wit = {"case": case}

    def run(folder, tEnd, tag, seed):
        w = dr.run_driver(P, [tEnd, 100000, "-c", cfile, "-f", folder, "-s", S], os.path.join(tmp, "cwd" + tag), seed=seed, timeout=800)
        for k, v in w.events.items():
            ev[k] = ev.get(k, 0) + v
        return w

    def failed(w, what, first_is_save):
        err = w.first_error()
        if err is None:
            return None
        wit["traceback"] = (w.tracebacks[err[0]] or "")[-2500:]
        key = "C18:driver-exception:%s" % type(err[1]).__name__
        if isinstance(err[1], ZeroDivisionError) and first_is_save:
            key = KEY_ZERODIV
        return result(VIOL, cls=cls, events=ev, key=key, what="%s (S=%d, P=%d, dt=%d): rank %d raised %r" % (what, S, P, dt, err[0], err[1]), witness=wit)
    tot = (N + M) * dt
    r = failed(run(A, tot, "A", case["seed"]), "unsplit run of %d steps" % (N + M), first_is_save=(S == 1))
    if r:
        return r
    r = failed(run(B, N * dt, "B1", case["seed"] + 1), "first part (%d steps)" % N, first_is_save=(S == 1))
    if r:
        return r
    r = failed(run(B, tot, "B2", case["seed"] + 2), "restart for %d more steps" % M, first_is_save=(N % S == S - 1))
    if r:
        return r
    ev["driver_continuity_runs"] = 1
    for name in ("grid_%06d.h5" % tot, "phi_%06d.h5" % tot):
        pa, pb = os.path.join(A, name), os.path.join(B, name)
        if not os.path.exists(pa) or not os.path.exists(pb):
            return result(VIOL, cls=cls, events=ev, key="C18:driver/final-checkpoint-missing", what="final checkpoint %s missing (unsplit: %s, split: %s); files A=%r B=%r"
                          % (name, os.path.exists(pa), os.path.exists(pb), sorted(os.listdir(A)), sorted(os.listdir(B))), witness=wit)
        a, la = dr.read_h5(pa)
        b, lb = dr.read_h5(pb)
        scale = float(np.abs(a).max()) + 1e-300
        if la != lb or a.shape != b.shape or not np.all(np.abs(a - b) <= 1000 * 2.2e-16 * scale):
            return result(VIOL, cls=cls, events=ev, key="C18:driver/restart-diverges", what="%s after %d+%d steps (restart) differs from %d steps in one go by %.3g (scale %.3g), S=%d, P=%d"
                          % (name, N, M, N + M, float(np.abs(a - b).max()) if a.shape == b.shape else -1, scale, S, P), witness=wit)
    return result(HELD, cls=cls, events=ev, n_eval=2)
