"""C03 -- LayoutSwapper: redistribution across differently distributed layout groups.

Same unique-id oracle as C01 for every hop on every rank, plus replica agreement (ranks owning
the same index ranges must hold bit-identical blocks, compared across ranks in the harness) and
round trips through random walks.  Hop kind (same-group / scatter / gather / redirect) is read
from the simulated-MPI trace (Allgather / Alltoall / none).
"""
import hashlib
import itertools
import random

import numpy as np

from vlib import paths
paths.setup()
from vlib.runner import result, HELD, VIOL, SKIP, INCO  # noqa: E402
from vlib import layout_oracle as lo  # noqa: E402

ID = "C03"
LEVEL = "exploration"
NEEDS_SIMMPI = True
RULE = ("random groupings of random orderings (1 in 6 configurations) and templates from real use (driver 3-group swapper over [(p0,p1),p0,p1]; poloidalTwist variant; 2-group variant; "
        "4-D 2-group variant), each also with a random relabelling of dimensions, permuted group order, varied start "
        "layout; process grids (p0,p1) with p0=p1, p0!=p1 and extents of 1; extents biased to uneven blocks; float64 and "
        "complex128 unique-id payload; per accepted configuration all ordered layout pairs with and without buffer and a "
        "random walk of 10-40 hops re-using buffers; replicas compared across ranks.  A configuration the constructor "
        "rejects with the same exception on every rank counts as refused (unperturbed driver template must be accepted). "
        "A class is (template, perturbed?, p0?p1 relation, even|uneven, hop kind from trace, dtype, buffer).")
ASSUMPTIONS = ["simulated MPI layer (Allgather with explicit MPI.DOUBLE on complex views moves 2x doubles as mpi4py does); self-tested",
               "process counts up to 8 (quick) / 16 (thorough)"]
REQUIRED_EVENTS = {"Allgather": 1, "Alltoall": 1, "hops_compared": 1, "gather_hops": 1, "scatter_hops": 1, "replica_groups_compared": 1, "long_redirect_hops": 1}
CASE_TIMEOUT = {"quick": 300, "thorough": 900}


def templates():
    T = {}
    T["driver"] = dict(nd=3, groups=[{'v_parallel_2d': [0, 2, 1], 'mode_solve': [1, 2, 0]}, {'v_parallel_1d': [0, 2, 1]}, {'poloidal': [2, 1, 0]}],
                       procs=lambda p0, p1: [[p0, p1], p0, p1], start='mode_solve')
    T["twist"] = dict(nd=3, groups=[{'v_parallel_2d': [0, 2, 1], 'mode_solve': [1, 2, 0]}, {'poloidal': [2, 1, 0], 'poloidalTwist': [2, 0, 1]}, {'v_parallel_1d': [0, 2, 1]}],
                      procs=lambda p0, p1: [[p0, p1], p1, p0], start='poloidal')
    T["two"] = dict(nd=3, groups=[{'mode_find': [2, 0, 1], 'mode_solve': [2, 1, 0]}, {'dphi': [0, 1, 2], 'poloidal': [2, 1, 0]}],
                    procs=lambda p0, p1: [[p0, p1], max(p0, p1)], start='mode_find')
    T["two_min"] = dict(nd=3, groups=[{'mode_find': [2, 0, 1], 'mode_solve': [2, 1, 0]}, {'dphi': [0, 1, 2], 'poloidal': [2, 1, 0]}],
                        procs=lambda p0, p1: [[p0, p1], min(p0, p1)], start='mode_find')
    # a 1-D group whose only connection to the far layouts of the 2-D group is a chain: D->A->B->C is 3 steps
    T["long3"] = dict(nd=3, groups=[{'A': [0, 1, 2], 'B': [2, 1, 0], 'C': [2, 0, 1]}, {'D': [0, 2, 1]}],
                      procs=lambda p0, p1: [[p0, p1], p0], start='A')
    # a fully replicated group (every process holds the whole field) next to the 2-D and a 1-D group: reaching it from the
    # 2-D group takes a scatter/gather chain through the 1-D group
    T["replicated0"] = dict(nd=3, groups=[{'v_parallel_2d': [0, 2, 1], 'mode_solve': [1, 2, 0]}, {'v_parallel_1d': [0, 2, 1]}, {'full': [0, 2, 1], 'full_t': [2, 1, 0]}],
                            procs=lambda p0, p1: [[p0, p1], p0, []], start='mode_solve')
    # a SECOND group distributed in two directions (the same two axes as 'v_parallel_2d' of the first group, listed in the other
    # order) next to a 1-D group: each direction of that group has to be given its own sub-communicator
    T["two2d"] = dict(nd=3, groups=[{'v_parallel_2d': [0, 2, 1], 'mode_solve': [1, 2, 0]}, {'z_first': [2, 0, 1]}, {'poloidal': [2, 1, 0]}],
                      procs=lambda p0, p1: [[p0, p1], [p1, p0], p1], start='v_parallel_2d')
    T["four"] = dict(nd=4, groups=[{'flux_surface2': [0, 3, 1, 2], 'v_parallel': [0, 2, 1, 3], 'poloidal': [3, 2, 1, 0]},
                                   {'flux_surface1': [0, 3, 1, 2], 'z_surface': [2, 3, 1, 0], 'vr_contig1': [2, 1, 3, 0]}],
                     procs=lambda p0, p1: [[p0, p1], p0], start='flux_surface2')
    return T


def _random_template(rng):
    """random grouping (not derived from real use): 1-3 random orderings on the 2-D group, 1-2 on each 1-D group"""
    import itertools
    nd = rng.choice([3, 3, 4])
    perms = [list(p) for p in itertools.permutations(range(nd))]
    rng.shuffle(perms)
    k0, k1 = rng.randint(1, 3), rng.randint(1, 2)
    k2 = min(rng.randint(0, 2), len(perms) - k0 - k1)
    g0 = {"a%d" % i: perms.pop() for i in range(k0)}
    g1 = {"b%d" % i: perms.pop() for i in range(k1)}
    groups = [g0, g1]
    third = rng.random() < 0.6 and k2 > 0
    if third:
        groups.append({"c%d" % i: perms.pop() for i in range(k2)})
    order = rng.choice([0, 1])

    def procs(p0, p1):
        pr = [[p0, p1], (p0, p1)[order]]
        if third:
            pr.append((p0, p1)[1 - order])
        return pr
    return dict(nd=nd, groups=groups, procs=procs, start="a0")


def make_cfg(rng, Pmax, nmax, tname=None, perturb=None):
    T = templates()
    tname = tname or rng.choice(list(T) + ["random"])
    t = T[tname] if tname != "random" else _random_template(rng)
    nd = t["nd"]
    while True:
        p0 = rng.choice([1, 1, 2, 2, 3, 4, 5])
        p1 = rng.choice([1, 2, 2, 3, 3, 4])
        if rng.random() < 0.25:
            p1 = p0
        if p0 * p1 <= Pmax:
            break
    groups = [dict((k, list(v)) for k, v in g.items()) for g in t["groups"]]
    procs = t["procs"](p0, p1)
    start = t["start"]
    if perturb is None:
        perturb = rng.random() < 0.6
    if perturb:
        sigma = list(range(nd))
        rng.shuffle(sigma)
        groups = [dict((k, [sigma[d] for d in v]) for k, v in g.items()) for g in groups]
        order = list(range(len(groups)))
        rng.shuffle(order)
        groups = [groups[i] for i in order]
        procs = [procs[i] for i in order]
        start = rng.choice([k for g in groups for k in g])
        # shuffle layout order inside the groups too
        for gi, g in enumerate(groups):
            items = list(g.items())
            rng.shuffle(items)
            groups[gi] = dict(items)
    req = [1] * nd
    for g, pr in zip(groups, procs):
        prl = [pr] if isinstance(pr, int) else list(pr)
        for order_ in g.values():
            for i, n in enumerate(prl):
                req[order_[i]] = max(req[order_[i]], n)
    shape = []
    for d in range(nd):
        r = req[d]
        n = rng.choice([r, r + 1, max(r, 2 * r - 1), 2 * r, rng.randint(r, max(r, nmax)), rng.randint(r, max(r, nmax))])
        shape.append(int(min(n, max(nmax, r))))
    return {"template": tname, "perturbed": bool(perturb), "p": [p0, p1], "groups": groups, "procs": procs, "start": start,
            "shape": shape, "dtype": rng.choice(["float", "complex"])}


def gen_cases(tier, seed):
    rng = random.Random(424242 + seed)
    n, Pmax, nmax = (110, 8, 8) if tier == "quick" else (10000, 16, 11)
    cases = []
    # unperturbed driver template on a spread of grids (must be accepted)
    for (p0, p1) in [(1, 1), (1, 2), (2, 1), (2, 2), (1, 3), (3, 1), (2, 3), (3, 2), (4, 2), (2, 4)]:
        if p0 * p1 > Pmax:
            continue
        for shape in ([8, 8, 8], [7, 9, 8], [5, 7, 6]):
            if min(shape) < max(p0, p1):
                continue
            t = templates()["driver"]
            cfg = {"template": "driver", "perturbed": False, "p": [p0, p1], "groups": t["groups"], "procs": t["procs"](p0, p1),
                   "start": t["start"], "shape": shape, "dtype": "complex" if (p0 + p1 + shape[0]) % 2 else "float"}
            cases.append({"kind": "cfg", "cfg": cfg, "must_accept": True, "sched_seed": p0 * 10 + p1, "walk": 16, "cost": p0 * p1 * 30})
    for (p0, p1) in [(2, 2), (2, 3), (3, 2)]:
        if p0 * p1 <= Pmax:
            t = templates()["long3"]
            cases.append({"kind": "cfg", "must_accept": False, "sched_seed": 9, "walk": 20, "cost": 200,
                          "cfg": {"template": "long3", "perturbed": False, "p": [p0, p1], "groups": t["groups"], "procs": t["procs"](p0, p1), "start": "A",
                                  "shape": [7, 6, 5], "dtype": "float"}})
    for (p0, p1) in [(2, 2), (2, 3), (3, 2), (3, 3), (1, 3), (2, 1)]:
        if p0 * p1 <= max(Pmax, 9):
            t = templates()["two2d"]
            cases.append({"kind": "cfg", "must_accept": True, "sched_seed": 11 + p0, "walk": 16, "cost": 100,
                          "cfg": {"template": "two2d", "perturbed": False, "p": [p0, p1], "groups": t["groups"], "procs": t["procs"](p0, p1), "start": t["start"],
                                  "shape": [6, 6, 6] if (p0 + p1) % 2 == 0 else [7, 5, 8], "dtype": "float"}})
    # deterministic witness of the listed known finding (and its complement: same groups, driver order)
    g = templates()["driver"]["groups"]
    cases.append({"kind": "cfg", "must_accept": False, "sched_seed": 5, "walk": 10, "cost": 50,
                  "cfg": {"template": "driver", "perturbed": True, "p": [4, 1], "groups": [g[1], g[2], g[0]], "procs": [4, 1, [4, 1]],
                          "start": "v_parallel_1d", "shape": [5, 8, 6], "dtype": "float"}})
    cases.append({"kind": "cfg", "must_accept": True, "sched_seed": 5, "walk": 10, "cost": 50,
                  "cfg": {"template": "driver", "perturbed": False, "p": [4, 1], "groups": g, "procs": [[4, 1], 4, 1],
                          "start": "mode_solve", "shape": [5, 8, 6], "dtype": "float"}})
    for k in range(n):
        cfg = make_cfg(rng, Pmax, nmax)
        cases.append({"kind": "cfg", "cfg": cfg, "must_accept": False, "sched_seed": rng.randrange(1 << 30), "walk": rng.randint(10, 40),
                      "cost": cfg["p"][0] * cfg["p"][1] * sum(len(g) for g in cfg["groups"]) ** 2})
    return cases


KEY_SAME_NDIST = "C03:cross-group-hop/equal-number-of-distributed-directions/different-distribution"


def _dist_sig(cfg, name, group_of):
    gi = group_of[name]
    pr = cfg["procs"][gi]
    prl = [pr] if isinstance(pr, int) else list(pr)
    order = cfg["groups"][gi][name]
    return sorted((order[i], n) for i, n in enumerate(prl) if n > 1)


def _hop_mechanism(h, a, b, cfg, group_of):
    """Known-finding classifier for one failing hop a->b: the swapper treats a hop between two
    groups with the same NUMBER of distributed directions (extents > 1) as a local
    transposition, which is wrong when the two layouts are distributed differently (only
    reachable when a process extent is 1 makes groups of different nominal dimension look
    alike).  Uses the swapper's own route (soft: private attribute) to find the steps."""
    try:
        steps = [a] + list(h._route_map[a][b]) if a != b else [a]
    except Exception:  # noqa: BLE001
        return None
    for x, y in zip(steps[:-1], steps[1:]):
        if group_of[x] == group_of[y]:
            continue
        sx, sy = _dist_sig(cfg, x, group_of), _dist_sig(cfg, y, group_of)
        if len(sx) == len(sy) and sx != sy:
            return KEY_SAME_NDIST
    return None


def run_case(case):
    from mpi4py import MPI
    from pygyro.model import layout as lay
    paths.assert_repo(lay)
    cfg = case["cfg"]
    shape, dtype = cfg["shape"], cfg["dtype"]
    p0, p1 = cfg["p"]
    P = p0 * p1
    G = lo.unique_global(shape, dtype)
    eta = [np.linspace(0.0, 1.0, n) for n in shape]
    names = [k for g in cfg["groups"] for k in g]
    group_of = {k: gi for gi, g in enumerate(cfg["groups"]) for k in g}
    even = True
    for g, pr in zip(cfg["groups"], cfg["procs"]):
        prl = [pr] if isinstance(pr, int) else list(pr)
        for o in g.values():
            for i, n in enumerate(prl):
                if shape[o[i]] % n:
                    even = False
    rel = "serial" if P == 1 else ("p0=p1" if p0 == p1 else ("has1" if 1 in (p0, p1) else "p0!=p1"))
    base = "%s%s/%s/%s/%s" % (cfg["template"], "*" if cfg["perturbed"] else "", rel, "even" if even else "uneven", dtype)
    walk_seed = case["sched_seed"] ^ 0x77
    skip_known = bool(case.get("_skip_known"))   # second pass of a configuration in which the listed finding fired (see the end of run_case)

    def prog(rank):
        import warnings
        warnings.simplefilter("ignore")
        comm = MPI.COMM_WORLD
        if case["sched_seed"] % 3 == 1:
            comm = comm.Split(0, -rank)          # the same processes numbered in the opposite order to the world communicator
        w = MPI.current_world()
        try:
            h = lay.LayoutSwapper(comm, [dict(g) for g in cfg["groups"]], [p if isinstance(p, int) else list(p) for p in cfg["procs"]],
                                  eta, cfg["start"])
        except (RuntimeError, AssertionError, ValueError, IndexError, KeyError) as e:
            return {"refused": "%s: %s" % (type(e).__name__, e)}
        out = {"bad": [], "cls": set(), "n": 0, "gather": 0, "scatter": 0, "redirect": 0, "rep": []}
        n = h.bufferSize
        bufs = (lo.Guarded(n, dtype), lo.Guarded(n, dtype), lo.Guarded(n, dtype))
        for a in names:
            for b in names:
                for wb in (False, True):
                    if skip_known and a != b and _hop_mechanism(h, a, b, cfg, group_of):
                        out["skipped_known"] = out.get("skipped_known", 0) + 1
                        continue
                    t0 = len(w.trace[rank])
                    try:
                        msg = lo.transpose_and_check(h, G, a, b, wb, dtype=dtype, bufs=bufs)
                    except MPI.SimError:
                        raise
                    except Exception as e:  # noqa: BLE001 - raised by the code under test on this hop
                        import traceback
                        out["bad"].append("%s->%s %s raised %s: %s" % (a, b, "with buffer" if wb else "no buffer", type(e).__name__, e))
                        out["fail_hop"] = (a, b)
                        out["known"] = _hop_mechanism(h, a, b, cfg, group_of)
                        out["tb"] = traceback.format_exc()[-2000:]
                        return out
                    ops = [t[2] for t in w.trace[rank][t0:]]
                    ng, na = sum(1 for o_ in ops if o_.lower().startswith("allgather")), sum(1 for o_ in ops if o_.lower().startswith("alltoall"))
                    nsteps = ng + na
                    if a == b:
                        kind = "same"
                    elif group_of[a] == group_of[b]:
                        kind = "ingroup%d" % min(na, 2)
                    elif nsteps > 1:
                        kind = "redirect" if nsteps == 2 else "redirect3+"
                        out["redirect"] += 1
                        out["long"] = out.get("long", 0) + (1 if nsteps >= 3 else 0)
                    elif ng == 1:
                        kind = "gather"
                    else:
                        kind = "scatter-or-local"
                    if ng:
                        out["gather"] += 1
                    if group_of[a] != group_of[b] and ng == 0 and na == 0:
                        out["scatter"] += 1
                    out["n"] += 1
                    out["cls"].add("%s/%s/%s" % (base, kind, "buf" if wb else "nobuf"))
                    Lb = h.getLayout(b)
                    blk = bufs[1].arr[:Lb.size]
                    out["rep"].append(("%s>%s/%d" % (a, b, wb), tuple(int(x) for x in Lb.starts), tuple(int(x) for x in Lb.ends),
                                       hashlib.md5(np.ascontiguousarray(blk).view(np.uint8).tobytes()).hexdigest()))
                    if msg:
                        out["bad"].append("%s->%s %s (%d Allgather, %d Alltoall): %s" % (a, b, "with buffer" if wb else "no buffer", ng, na, msg))
                        out.setdefault("fail_hop", (a, b))
                        out.setdefault("known", _hop_mechanism(h, a, b, cfg, group_of))
                        if len(out["bad"]) > 3:
                            return out
        rng = random.Random(walk_seed)
        X, Y, Z = [np.full(n, lo.sentinel(dtype), dtype=lo.np_dtype(dtype)) for _ in range(3)]
        cur = rng.choice(names)
        Lc = h.getLayout(cur)
        X[:Lc.size] = lo.expected_block(G, Lc).reshape(-1)
        for hop in range(case.get("walk", 12)):
            nxt = rng.choice(names)
            wb = rng.random() < 0.5
            if skip_known and cur != nxt and _hop_mechanism(h, cur, nxt, cfg, group_of):
                continue
            keep = X[:h.getLayout(cur).size].copy()
            h.transpose(X, Y, cur, nxt, Z if wb else None)
            Ln = h.getLayout(nxt)
            got = Y[:Ln.size].reshape(Ln.shape)
            exp = lo.expected_block(G, Ln)
            out["n"] += 1
            out["cls"].add("%s/walk/%s" % (base, "buf" if wb else "nobuf"))
            if not lo.bits_equal(got, exp):
                out["bad"].append("walk hop %d %s->%s %s: %s" % (hop, cur, nxt, "with buffer" if wb else "no buffer", lo.describe_diff(got, exp, G)))
                return out
            if wb and not lo.bits_equal(X[:keep.size], keep):
                out["bad"].append("walk hop %d %s->%s: source modified although buffer given" % (hop, cur, nxt))
                return out
            X, Y = Y, X
            cur = nxt
        return out

    w = MPI.run_world(P, prog, schedule="random", seed=case["sched_seed"], timeout=case.get("timeout", 280))
    ev = dict(w.events)
    sched = str(hash(w.arrival_signature()))
    err = w.first_error()
    wit = {"cfg": cfg, "sched_seed": case["sched_seed"]}
    if err is not None:
        wit["traceback"] = (w.tracebacks[err[0]] or "")[-2500:]
        return result(VIOL, cls=[base + "/exception"], events=ev, key="C03:exception:%s" % type(err[1]).__name__,
                      what="rank %d raised %r; cfg=%r" % (err[0], err[1], cfg), witness=wit, sched=sched)
    res = w.results
    refused = [("refused" in r) for r in res]
    if any(refused):
        kinds = set(r.get("refused", "accepted").split(":")[0] for r in res)
        if not all(refused) or len(kinds) > 1:
            return result(VIOL, cls=[base + "/refused"], events=ev, key="C03:inconsistent-refusal",
                          what="constructor outcome differs between ranks: %r" % ([r.get("refused", "accepted") for r in res],), witness=wit)
        if case.get("must_accept"):
            return result(VIOL, cls=[base + "/refused"], events=ev, key="C03:driver-template-refused",
                          what="the driver's swapper configuration was refused: %s cfg=%r" % (res[0]["refused"], cfg), witness=wit)
        ev["refused_sets"] = 1
        return result(HELD, cls=["refused/%s%s" % (cfg["template"], "*" if cfg["perturbed"] else "")], events=ev, sched=sched)
    bad = [m for r in res for m in r["bad"]]
    cls = sorted(set(c for r in res for c in r["cls"]))
    ev["hops_compared"] = sum(r["n"] for r in res)
    ev["gather_hops"] = sum(r["gather"] for r in res)
    ev["scatter_hops"] = sum(r["scatter"] for r in res)
    ev["redirect_hops"] = sum(r["redirect"] for r in res)
    ev["long_redirect_hops"] = sum(r.get("long", 0) for r in res)
    # replica agreement across ranks
    groups = {}
    for rk, r in enumerate(res):
        for (hop, st, en, dig) in r["rep"]:
            groups.setdefault((hop, st, en), []).append((rk, dig))
    nrep = 0
    for (hop, st, en), lst in groups.items():
        if len(lst) > 1:
            nrep += 1
            if len(set(d for _r, d in lst)) > 1:
                bad.append("replicas disagree after %s for index ranges %r-%r: ranks %r" % (hop, st, en, [r for r, _ in lst]))
                break
    ev["replica_groups_compared"] = nrep
    if w.unmatched():
        bad.append("unmatched collectives left at exit: %r" % (w.unmatched()[:3],))
    if bad:
        wit["messages"] = bad[:6]
        keys = [r.get("known") for r in res if r.get("fail_hop")]
        key = "C03:wrong-data"
        if keys and all(k == KEY_SAME_NDIST for k in keys) and len(bad) == len(keys):
            key = KEY_SAME_NDIST
        wit["fail_hops"] = [r.get("fail_hop") for r in res if r.get("fail_hop")]
        wit["traceback"] = next((r.get("tb") for r in res if r.get("tb")), None)
        if key == KEY_SAME_NDIST and not skip_known:
            # the listed finding ends the first pass at its first hop; it must not hide anything else in this configuration:
            # second pass over every hop (and a walk) whose route does not use the listed mechanism, in a fresh world
            r2 = run_case(dict(case, _skip_known=True))
            if r2["status"] == VIOL:
                r2["what"] = "(hops routed through the listed cross-group finding left out) " + r2.get("what", "")
                return r2
            if r2["status"] == HELD:
                ev["hops_compared_beyond_listed_finding"] = r2["events"].get("hops_compared", 0)
                cls = sorted(set(cls) | set(r2["cls"]))
        return result(VIOL, cls=cls, events=ev, key=key, what=bad[0] + " cfg=%r" % (cfg,), witness=wit, sched=sched, n_eval=ev["hops_compared"])
    return result(HELD, cls=cls, events=ev, sched=sched, n_eval=ev["hops_compared"])
