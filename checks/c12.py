"""C12 -- poloidal advection traces 2nd-order ExB characteristics and interpolates at the foot.

Oracle: independent vectorised implementation (vlib.refmath.Tensor2D: dense collocation solves +
vectorised Cox-de Boor) of the stated scheme: drift (-d_r phi, d_theta phi)/(r B0), explicit Heun or
converged implicit trapezoid with radial clipping, theta modulo 2 pi, boundary values.  Anchors that
fix the sign conventions independently of the code: constant potential, rigid rotation, third-order
agreement of the two schemes.  Termination of the implicit iteration is judged in executed lines of the
implicit kernel (sys.monitoring LINE counter, budget = lines that `bound` fixed-point iterations per node
can need, whatever the loop organisation) -- never in seconds.
Nodes whose foot or Heun predictor lies within 1e-9 of the radial boundary are excluded, as the
property says.
"""
import inspect
import math
import random
from math import pi

import numpy as np

from vlib import paths, argrep
paths.setup()
from vlib.runner import result, HELD, VIOL, SKIP, INCO  # noqa: E402
from vlib import refmath as rm  # noqa: E402
from vlib import physgen as pg  # noqa: E402
from vlib.stepcount import LineCounter, BudgetExceeded  # noqa: E402

ID = "C12"
LEVEL = "exploration"
RULE = ("seeded set-ups: grids 6x6 ... 20x20 (theta x r), uniform-cubic and general bases (degrees 2-5, also different degrees in theta and r, cubic on the general path), every case is a HISTORY of 2-4 steps on one operator object (two velocities, then a stronger different potential with dt2=-1.7dt, then the first again), potentials = random "
        "smooth/rough nodal values, Fourier mode x radial profile, rigid rotation omega r^2/2, constants; dt of either sign over "
        "three decades; several v; both boundary modes; explicit and implicit scheme (tolerances 1e-10 and 1e-13).  Every "
        "non-excluded node compared with the independent scheme; identities (constant potential, exact rigid rotation for "
        "both schemes, explicit-vs-implicit difference shrinking >= 5x per halving of dt on the finest resolvable pair of dt, dt/2, dt/4).  Termination: executed lines of the "
        "implicit kernel counted by sys.monitoring; must-terminate class q=|dt|/2*Lip(drift)*1.2 <= 0.8 within the line budget of "
        "ceil(log(tol/D0)/log(q))+5 fixed-point iterations per node (120 lines per node and iteration allowed; the shipped kernel uses about 35); hostile class q >= 1 capped (known finding); 0.8<q<1 not judged.  A class is "
        "(scheme, basis path, boundary mode, potential kind, dt class, monitor).")
ASSUMPTIONS = ["reference 2-D splines by dense collocation solves; Lipschitz constant of the drift estimated by central differences at 20 samples per cell (x1.2 safety)",
               "tolerance 500*eps*kappa*scale + gradient*(foot rounding + implicit stopping tolerance/(1-q))", "B0 taken from the constants object"]
REQUIRED_EVENTS = {"nodes_compared": 1, "excluded_boundary_nodes": 0, "rotation_checks": 1, "constant_phi_checks": 1, "order_checks": 1, "history_steps": 1, "mixed_degree_cases": 1,
                   "implicit_runs_counted": 1, "feet_outside_low": 1, "feet_outside_high": 1}
C = 500.0
KEY_NOCONTRACT = "C12:implicit/no-contraction (q>=1)"
CASE_TIMEOUT = {"quick": 600, "thorough": 1800}


def gen_cases(tier, seed):
    rng = random.Random(121212 + seed)
    cases = []
    n = 70 if tier == "quick" else 2500
    for k in range(n):
        deg = rng.choice([3, 3, 3, 2, 4, 5])
        deg_r = deg if rng.random() < 0.5 else rng.choice([2, 3, 4, 5])
        cases.append({"kind": "formula", "deg": deg, "deg_r": deg_r, "nth": rng.randint(max(6, deg + 1), 20), "nr": rng.randint(max(6, deg_r + 2), 20),
                      "phi": rng.choice(["smooth", "smooth", "mode", "rough", "rotation", "constant"]), "explicit": rng.random() < 0.5,
                      "nul": rng.random() < 0.5, "dtclass": rng.choice(["small", "medium", "large"]), "sign": rng.choice([1, -1]),
                      "tol": rng.choice([1e-10, 1e-13]), "seed": rng.randrange(1 << 30), "cost": 60})
    for k in range(10 if tier == "quick" else 200):
        cases.append({"kind": "order", "deg": rng.choice([3, 3, 4, 5]), "n": rng.choice([12, 16]), "seed": rng.randrange(1 << 30), "cost": 200})
    for k in range(2 if tier == "quick" else 24):
        cases.append({"kind": "hostile", "n": 6, "cap": 600 if tier == "quick" else 3000, "dt": rng.choice([4.0, 8.0, 16.0]), "seed": rng.randrange(1 << 30), "cost": 4000})
    return cases


# ---------------------------------------------------------------------------------------------------------------

class Setup:
    def __init__(self, spl, adv, deg, nth, nr, seed, explicit=True, nul=False, tol=1e-10, deg_r=None):
        rng = random.Random(seed)
        deg_r = deg if deg_r is None else deg_r
        general = (deg != deg_r) and 3 in (deg, deg_r) or (deg == 3 and deg_r == 3 and seed % 5 == 0)
        self.c = pg.make_constants(rMin=rng.uniform(0.3, 1.0), rMax=rng.uniform(4, 9), npts=[nr, nth, 8, 8], splineDegrees=[deg_r, deg, 3, 3], B0=rng.choice([1.0, 1.0, 2.0]))
        self.eta, self.bs, self.breaks = pg.make_space(spl, self.c.npts, self.c.splineDegrees, pg.std_domain(self.c), force_general=general)
        self.th, self.r = self.eta[1], self.eta[0]
        self.op = adv.PoloidalAdvection(self.eta, [self.bs[1], self.bs[0]], self.c, nulEdge=nul, explicitTrap=explicit, tol=tol)
        self.t2 = rm.Tensor2D(self.bs[1], self.th, self.bs[0], self.r)
        self.interp = spl.SplineInterpolator2D(self.bs[1], self.bs[0])
        self.spl = spl
        self.nul, self.explicit, self.tol = nul, explicit, tol
        self.rmin, self.rmax = float(self.r[0]), float(self.r[-1])
        self.fast = bool(self.bs[1].cubic_uniform)

    def phi_spline(self, PH):
        s = self.spl.Spline2D(self.bs[1], self.bs[0])
        self.interp.compute_interpolant(PH, s)
        return s

    def phi_spline_inplace(self, PH):
        """the SAME Spline2D object re-interpolated in place (what gridStep does with its per-z potential splines)"""
        if not hasattr(self, "_phi_obj"):
            self._phi_obj = self.spl.Spline2D(self.bs[1], self.bs[0])
        self.interp.compute_interpolant(PH, self._phi_obj)
        return self._phi_obj

    def drift(self, Cphi, q, r):
        """(d_theta, d_r) of the traced-back characteristic at scattered points"""
        drp = self.t2.eval(Cphi, q, r, 0, 1)
        dqp = self.t2.eval(Cphi, q, r, 1, 0)
        return -drp / (r * self.c.B0), dqp / (r * self.c.B0)

    def lipschitz(self, Cphi):
        """max-row-sum norm of the Jacobian of the drift, central differences at 20 samples per cell"""
        qs = np.linspace(0, 2 * pi, 20 * len(self.th), endpoint=False)
        rs_ = np.linspace(self.rmin, self.rmax, 20 * (len(self.r) - 1) + 1)
        Q, R = np.meshgrid(qs, rs_, indexing="ij")
        q, r = Q.ravel(), R.ravel()
        hq = 1e-5 * (self.th[1] - self.th[0])
        hr = 1e-5 * (self.r[1] - self.r[0])
        rl, rh = np.clip(r - hr, self.rmin, self.rmax), np.clip(r + hr, self.rmin, self.rmax)
        a1, b1 = self.drift(Cphi, np.mod(q + hq, 2 * pi), r)
        a0, b0 = self.drift(Cphi, np.mod(q - hq, 2 * pi), r)
        a3, b3 = self.drift(Cphi, q, rh)
        a2, b2 = self.drift(Cphi, q, rl)
        J11, J21 = (a1 - a0) / (2 * hq), (b1 - b0) / (2 * hq)
        J12, J22 = (a3 - a2) / (rh - rl), (b3 - b2) / (rh - rl)
        return float(np.max(np.maximum(np.abs(J11) + np.abs(J12), np.abs(J21) + np.abs(J22)))), float(max(np.abs(a1).max(), np.abs(b1).max()))

    def ref_step(self, F, Cphi, dt, v):
        """-> (new values, judged mask, info)"""
        c = self.c
        Q, R = np.meshgrid(self.th, self.r, indexing="ij")
        q0, r0 = Q.ravel(), R.ravel()
        Cf = self.t2.coeffs(F)
        d0q, d0r = self.drift(Cphi, q0, r0)
        q1 = np.mod(q0 + dt * d0q, 2 * pi)
        r1 = r0 + dt * d0r
        near = np.zeros(len(q0), bool)
        eps_b = 1e-9
        if self.explicit:
            inside = (r1 >= self.rmin) & (r1 <= self.rmax)
            near |= (np.abs(r1 - self.rmin) < eps_b) | (np.abs(r1 - self.rmax) < eps_b)
            d1q, d1r = np.zeros_like(q0), np.zeros_like(q0)
            if inside.any():
                a, b = self.drift(Cphi, q1[inside], r1[inside])
                d1q[inside], d1r[inside] = a, b
            qf = np.mod(q0 + 0.5 * dt * (d0q + d1q), 2 * pi)
            rf = r0 + 0.5 * dt * (d0r + d1r)
            sweeps = 0
        else:
            qk, rk = q1, r1
            sweeps = 0
            for sweeps in range(1, 4000):
                inside = (rk >= self.rmin) & (rk <= self.rmax)
                near_k = (np.abs(rk - self.rmin) < eps_b) | (np.abs(rk - self.rmax) < eps_b)
                dkq, dkr = np.zeros_like(q0), np.zeros_like(q0)
                if inside.any():
                    a, b = self.drift(Cphi, np.mod(qk[inside], 2 * pi), rk[inside])
                    dkq[inside], dkr[inside] = a, b
                qn = np.mod(q0 + 0.5 * dt * (d0q + dkq), 2 * pi)
                rn = np.clip(r0 + 0.5 * dt * (d0r + dkr), self.rmin, self.rmax)
                dq = np.abs(qn - np.mod(qk, 2 * pi))
                dq = np.where(dq > pi, 2 * pi - dq, dq)
                nrm = max(float(dq.max()), float(np.abs(rn - rk).max()))
                qk, rk = qn, rn
                if nrm <= 1e-14:
                    break
            qf, rf = qk, rk
            near |= near_k
        near |= (np.abs(rf - self.rmin) < eps_b) | (np.abs(rf - self.rmax) < eps_b)
        low, high = rf < self.rmin, rf > self.rmax
        ins = ~(low | high)
        new = np.empty_like(q0)
        if ins.any():
            new[ins] = self.t2.eval(Cf, qf[ins], rf[ins])
        if self.nul:
            new[low] = 0.0
            new[high] = 0.0
        else:
            new[low] = pg.f_eq(self.rmin, v, c)
            new[high] = pg.f_eq(rf[high], v, c)
        # gradient magnitude of the f-spline (sensitivity to the foot position)
        g = 0.0
        if ins.any():
            g = max(float(np.abs(self.t2.eval(Cf, qf[ins], rf[ins], 1, 0)).max()), float(np.abs(self.t2.eval(Cf, qf[ins], rf[ins], 0, 1)).max()))
        return new.reshape(F.shape), (~near).reshape(F.shape), {"low": int(low.sum()), "high": int(high.sum()), "grad": g, "ref_sweeps": sweeps,
                                                               "disp": float(max(np.abs(dt * d0q).max(), np.abs(dt * d0r).max()))}


def make_phi(setup, kind, rs, amp):
    Q, R = np.meshgrid(setup.th, setup.r, indexing="ij")
    if kind == "constant":
        return np.full(Q.shape, float(rs.uniform(-3, 3))), None
    if kind == "rotation":
        om = float(rs.uniform(-1, 1)) * amp
        return 0.5 * om * R * R, om
    if kind == "mode":
        m = int(rs.randint(1, 4))
        return amp * np.sin(m * Q + rs.uniform(0, 6)) * np.cos((R - setup.rmin) / (setup.rmax - setup.rmin) * rs.uniform(1, 4)) + 0.02 * R * R, None
    if kind == "rough":
        return amp * rs.standard_normal(Q.shape), None
    # smooth random: a few low Fourier modes with smooth radial profiles
    PH = np.zeros(Q.shape)
    for m in range(0, 3):
        PH += rs.uniform(-1, 1) * np.cos(m * Q + rs.uniform(0, 6)) * np.cos(rs.uniform(0.5, 3) * (R - setup.rmin) / (setup.rmax - setup.rmin) * pi)
    return amp * PH + 0.01 * rs.uniform(-1, 1) * R * R, None


def run_case(case):
    import pygyro.splines as spl
    from pygyro.advection import advection as adv
    from pygyro.advection import accelerated_advection_steps as acc
    paths.assert_repo(adv)
    if case["kind"] == "formula":
        return _formula(case, spl, adv, acc)
    if case["kind"] == "order":
        return _order(case, spl, adv, acc)
    return _hostile(case, spl, adv, acc)


PER_ITER, PER_NODE = 120, 400      # generous line budgets per node and fixed-point iteration / per node outside the iteration


def _run_impl_counted(setup, acc, F, dt, phis, v, bound):
    """run step() under a budget of executed lines of the implicit kernel that corresponds to `bound` fixed-point
    iterations for every node (however the kernel organises its loops: global sweeps or node by node);
    returns (equivalent sweeps or None if the kernel was not entered, exceeded?)"""
    fn = acc.general_poloidal_advection_step_impl
    N = int(F.size)
    budget = N * (bound * PER_ITER + PER_NODE) + 2000
    try:
        with LineCounter(fn, budget=budget) as lc:
            setup.op.step(F, dt, phis, v)
        if lc.count == 0:
            return None, False
        return lc.count / float(N * 35), False      # about 35 lines per node and sweep in the shipped kernel
    except BudgetExceeded:
        return bound, True


def _formula(case, spl, adv, acc):
    rs = np.random.RandomState(case["seed"] % (1 << 31))
    rng = random.Random(case["seed"])
    S = Setup(spl, adv, case["deg"], case["nth"], case["nr"], case["seed"], explicit=case["explicit"], nul=case["nul"], tol=case["tol"], deg_r=case.get("deg_r"))
    if S.t2.kappa > 1e8:
        return result(SKIP, what="ill conditioned 2-D space")
    amp = {"small": 0.3, "medium": 1.0, "large": 3.0}[case["dtclass"]] if case["phi"] != "rough" else 0.3
    PH, omega = make_phi(S, case["phi"], rs, amp)
    Cphi = S.t2.coeffs(PH)
    lip, dmax = S.lipschitz(Cphi)
    dt_mag = {"small": rng.uniform(0.01, 0.1), "medium": rng.uniform(0.1, 1.0), "large": rng.uniform(1.0, 8.0)}[case["dtclass"]]
    dt = case["sign"] * dt_mag
    q = abs(dt) / 2 * lip * 1.2
    scheme = "explicit" if case["explicit"] else "implicit"
    path = "fast" if S.fast else "general-p%d-p%d" % (case["deg"], case.get("deg_r", case["deg"]))
    base = "%s/%s/%s/%s/dt-%s" % (scheme, path, "null" if case["nul"] else "fEq", case["phi"], case["dtclass"])
    ev = {"nodes_compared": 0, "excluded_boundary_nodes": 0, "rotation_checks": 0, "constant_phi_checks": 0, "order_checks": 0,
          "implicit_runs_counted": 0, "feet_outside_low": 0, "feet_outside_high": 0, "not_judged_q_between": 0, "history_steps": 0,
          "mixed_degree_cases": int(case.get("deg_r", case["deg"]) != case["deg"])}
    cls = set()
    wit = {"case": case, "dt": dt, "q": q, "lip": lip}
    if not case["explicit"] and q > 0.8:
        if q < 1.0 or case["phi"] in ("rotation", "constant"):
            # rotation/constant converge in one sweep whatever q; others with 0.8<q<1 are not judged
            if case["phi"] not in ("rotation", "constant"):
                ev["not_judged_q_between"] = 1
                return result(SKIP, events=ev, what="0.8 < q < 1: not judged")
        else:
            # keep the must-terminate verdicts inside the contraction regime: shrink dt
            dt = case["sign"] * 0.75 * 2 / (lip * 1.2)
            q = abs(dt) / 2 * lip * 1.2
            wit.update(dt=dt, q=q)
    phis = S.phi_spline(PH)
    vvals = [float(S.eta[3][0]), float(S.eta[3][len(S.eta[3]) // 2])]
    # a HISTORY on one operator object (as gridStep and Strang splitting produce): the same potential with two
    # velocities, then a different, stronger potential with another time step, then the first one again
    hist = [(PH, Cphi, phis, dt, vvals[0], q), (PH, Cphi, phis, dt, vvals[1], q)]
    if case["phi"] not in ("rotation", "constant"):
        PH2, _om2 = make_phi(S, "smooth" if case["phi"] != "smooth" else "mode", rs, 2.5 * amp)
        C2 = S.t2.coeffs(PH2)
        lip2, dmax2 = S.lipschitz(C2)
        dt2 = -1.7 * dt
        q2 = abs(dt2) / 2 * lip2 * 1.2
        if case["explicit"] or q2 <= 0.8:
            hist.append((PH2, C2, S.phi_spline(PH2), dt2, vvals[0], q2))
            hist.append((PH, Cphi, phis, dt, vvals[0], q))
    lip_first, dmax_first = lip, dmax
    for hstep, (PH, Cphi, phis, dt, v, q) in enumerate(hist):
        if case["seed"] % 2:
            phis = S.phi_spline_inplace(PH)          # odd seeds: one potential spline object, refilled before every step
        if hstep >= 2:
            lip, dmax = (lip2, dmax2) if hstep == 2 else (lip_first, dmax_first)
            cls.add("%s/history-step%d" % (base, hstep))
        F0 = rs.standard_normal((case["nth"], case["nr"])) if case["nul"] else pg.f_eq(S.r[None, :], v, S.c) * (1 + 0.3 * rs.standard_normal((case["nth"], case["nr"])))
        rep = argrep.kinds(2)[(hstep + case["seed"] // 2) % len(argrep.kinds(2))]
        got = argrep.view_of(F0, rep)       # the caller's array: fresh C-contiguous, Fortran-ordered, a window / stride / plane of a larger block
        cls.add("%s/argument-%s" % (base, rep))
        if case["explicit"]:
            S.op.step(got, dt, phis, v)
            sweeps = None
        else:
            D0 = max(abs(dt) * dmax + 1e-300, 10 * case["tol"])
            bound = (int(math.ceil(math.log(case["tol"] / D0) / math.log(q))) + 5) if 0 < q < 1 else 3
            bound = max(bound, 3)
            if case["phi"] in ("rotation", "constant"):
                bound = max(bound, 5)
            sweeps, exceeded = _run_impl_counted(S, acc, got, dt, phis, v, bound)
            if sweeps is not None:
                ev["implicit_runs_counted"] += 1
                cls.add("%s/termination" % base)
            if exceeded:
                return result(VIOL, cls=sorted(cls), events=ev, key="C12:implicit/not-terminating-inside-contraction-regime",
                              what="implicit iteration executed more lines than %d fixed-point iterations per node can need (%d lines per node and iteration allowed) although q=%.3g <= 0.8 (dt=%.4g, tol=%g, potential %s)"
                              % (bound, PER_ITER, q, dt, case["tol"], case["phi"]), witness=wit)
        ref, judged, info = S.ref_step(F0, Cphi, dt, v)
        ev["history_steps"] += int(hstep >= 2)
        ev["feet_outside_low"] += info["low"]
        ev["feet_outside_high"] += info["high"]
        fmax = float(np.abs(F0).max())
        foot_err = C * rm.EPS * S.t2.kappa * (2 * pi + S.rmax + info["disp"]) * (1 + lip * abs(dt))
        if not case["explicit"]:
            foot_err += case["tol"] * (q / (1 - q) if q < 1 else 1.0) + case["tol"]
        tol = C * rm.EPS * S.t2.kappa * fmax + info["grad"] * foot_err * 4
        err = np.where(judged, np.abs(got - ref), 0.0)
        ev["nodes_compared"] += int(judged.sum())
        ev["excluded_boundary_nodes"] += int((~judged).sum())
        cls.add("%s/formula" % base)
        if not np.all(err <= tol):
            idx = np.unravel_index(int(np.nanargmax(np.where(np.isnan(err), np.inf, err))), err.shape)
            return result(VIOL, cls=sorted(cls), events=ev, key="C12:formula/%s/%s" % (scheme, "null" if case["nul"] else "fEq"),
                          what="PoloidalAdvection.step (%s, %s, %s boundary, potential %s, dt=%.4g, v=%.3g): node (theta %d, r %d) differs from the independent scheme by %.3g (tol %.3g); %d/%d feet outside"
                          % (scheme, path, "null" if case["nul"] else "fEq", case["phi"], dt, v, idx[0], idx[1], float(np.nanmax(err)), tol, info["low"], info["high"]), witness=wit)
        # anchors
        if case["phi"] == "constant":
            ev["constant_phi_checks"] += 1
            cls.add("%s/constant-potential" % base)
            e = np.where(judged, np.abs(got - F0), 0.0)
            if not np.all(e <= C * rm.EPS * S.t2.kappa * fmax):
                return result(VIOL, cls=sorted(cls), events=ev, key="C12:constant-potential-changes-f", what="constant potential changed f by %.3g (%s)" % (float(e.max()), scheme), witness=wit)
        if case["phi"] == "rotation":
            ev["rotation_checks"] += 1
            cls.add("%s/rigid-rotation" % base)
            Cf = S.t2.coeffs(F0)
            Q, R = np.meshgrid(S.th, S.r, indexing="ij")
            exact = S.t2.eval(Cf, np.mod(Q.ravel() - omega * dt / S.c.B0, 2 * pi), R.ravel()).reshape(F0.shape)
            gq = float(np.abs(S.t2.eval(Cf, Q.ravel(), R.ravel(), 1, 0)).max())
            e = np.where(judged, np.abs(got - exact), 0.0)
            tolr = C * rm.EPS * S.t2.kappa * fmax + gq * (C * rm.EPS * (2 * pi + abs(omega * dt)) * S.t2.kappa + (0 if case["explicit"] else 2 * case["tol"])) * 4
            if not np.all(e <= tolr):
                return result(VIOL, cls=sorted(cls), events=ev, key="C12:rigid-rotation/%s" % scheme,
                              what="phi = omega r^2/2 (omega=%.4g, dt=%.4g, B0=%g): f_new differs from f_old(theta - omega dt/B0, r) by %.3g (tol %.3g), %s scheme"
                              % (omega, dt, S.c.B0, float(e.max()), tolr, scheme), witness=wit)
    return result(HELD, cls=sorted(cls), events=ev, n_eval=ev["nodes_compared"])


def _order(case, spl, adv, acc):
    """explicit vs implicit agree to third order in dt (smooth potential, contraction regime, null boundary)"""
    rs = np.random.RandomState(case["seed"] % (1 << 31))
    n, deg = case["n"], case["deg"]
    SE = Setup(spl, adv, deg, n, n, case["seed"], explicit=True, nul=True)
    SI = Setup(spl, adv, deg, n, n, case["seed"], explicit=False, nul=True, tol=1e-14)
    PH, _ = make_phi(SE, "smooth", rs, 1.0)
    Q, R = np.meshgrid(SE.th, SE.r, indexing="ij")
    # the two schemes treat feet beyond the radial boundary differently (the implicit one clips): keep the
    # characteristics inside by letting the potential's theta-dependence vanish at both boundaries
    PH = PH * np.sin(pi * (R - SE.rmin) / (SE.rmax - SE.rmin)) ** 2
    Cphi = SE.t2.coeffs(PH)
    lip, dmax = SE.lipschitz(Cphi)
    dt = 0.4 * 2 / (lip * 1.2)                # q = 0.4
    F0 = np.exp(-((R - 0.5 * (SE.rmin + SE.rmax)) / (0.2 * (SE.rmax - SE.rmin))) ** 2) * (1 + 0.5 * np.cos(2 * Q))
    phis_e, phis_i = SE.phi_spline(PH), SI.phi_spline(PH)
    diffs = []
    for h in (dt, dt / 2, dt / 4):
        a, b = F0.copy(), F0.copy()
        SE.op.step(a, h, phis_e, 0.0)
        SI.op.step(b, h, phis_i, 0.0)
        _r, judged, _i = SE.ref_step(F0, Cphi, h, 0.0)
        _r2, judged2, _i2 = SI.ref_step(F0, Cphi, h, 0.0)
        if _i["low"] + _i["high"] + _i2["low"] + _i2["high"]:
            return result(SKIP, what="characteristics leave the domain; order comparison not defined")
        judged = judged & judged2
        judged[:, 0] = False
        judged[:, -1] = False
        diffs.append(float(np.where(judged, np.abs(a - b), 0.0).max()))
    ev = {"order_checks": 1, "nodes_compared": 0, "excluded_boundary_nodes": 0, "rotation_checks": 0, "constant_phi_checks": 0, "implicit_runs_counted": 0,
          "feet_outside_low": 0, "feet_outside_high": 0}
    cls = ["order/%s" % ("fast" if SE.fast else "general-p%d" % deg)]
    # third order means the difference shrinks 8x per halving asymptotically; a second-order agreement would give 4x.
    # Judge the finest pair that is still above rounding, with threshold 5 (order >= 2.3) so that pre-asymptotic
    # behaviour at the coarse step cannot raise a false alarm (a first thorough run showed 5.95 at q=0.5).
    pairs = [(diffs[1], diffs[2]), (diffs[0], diffs[1])]
    pick = next((pr for pr in pairs if pr[0] >= 1e-9 and pr[1] >= 1e-11), None)
    if pick is None:
        return result(HELD, cls=cls, events=ev, extra={"diffs": diffs, "note": "difference at rounding level"})
    ratio = pick[0] / max(pick[1], 1e-300)
    if not ratio >= 5.0:
        return result(VIOL, cls=cls, events=ev, key="C12:explicit-implicit-order", what="explicit/implicit differences %r for dt, dt/2, dt/4: ratio %.2f < 5 (third order expected: 8)" % (diffs, ratio),
                      witness={"case": case, "dt": dt, "diffs": diffs})
    return result(HELD, cls=cls, events=ev, extra={"diffs": diffs, "ratio": ratio})


def _hostile(case, spl, adv, acc):
    """q >= 1: the implicit iteration has no iteration bound (listed known finding)"""
    rs = np.random.RandomState(case["seed"] % (1 << 31))
    n = case["n"]
    S = Setup(spl, adv, 3, n, n + 1, case["seed"], explicit=False, nul=True, tol=1e-10)
    PH = 3.0 * rs.standard_normal((n, n + 1))
    Cphi = S.t2.coeffs(PH)
    lip, dmax = S.lipschitz(Cphi)
    dt = case["dt"]
    q = abs(dt) / 2 * lip * 1.2
    ev = {"hostile_runs": 1, "order_checks": 0, "nodes_compared": 0, "excluded_boundary_nodes": 0, "rotation_checks": 0, "constant_phi_checks": 0,
          "implicit_runs_counted": 0, "feet_outside_low": 0, "feet_outside_high": 0}
    if q < 1.5:
        return result(SKIP, events=ev, what="generated potential not hostile enough (q=%.3g)" % q)
    F0 = rs.standard_normal((n, n + 1))
    sweeps, exceeded = _run_impl_counted(S, acc, F0, dt, S.phi_spline(PH), 0.0, case["cap"])
    ev["implicit_runs_counted"] = 1 if sweeps is not None else 0
    if exceeded:
        return result(VIOL, cls=["hostile/q>=1"], events=ev, key=KEY_NOCONTRACT,
                      what="implicit iteration exceeded the line budget of %d iterations per node (q=%.3g, dt=%g, rough potential of amplitude 3 on a %dx%d grid): the loop has no iteration bound" % (case["cap"], q, dt, n, n + 1),
                      witness={"case": case, "q": q})
    return result(HELD, cls=["hostile/q>=1/terminated"], events=ev, extra={"sweeps": sweeps, "q": q})
