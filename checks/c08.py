"""C08 -- interpolants reproduce their data and all polynomials of the spline degree.

Oracle: S(x_i) = u_i at basis.greville within c*eps*kappa(C)*|u|, kappa from a dense reference
collocation matrix (Cox-de Boor definition); clamped spaces reproduce random polynomials of degree
<= p (value and derivative, evaluated through the independent reference evaluator AND through
pygyro's evaluator); periodic interpolants carry bit-identical wrapped coefficients.  2-D: all four
boundary combinations; complex data on clamped spaces.
"""
import random

import numpy as np

from vlib import paths
paths.setup()
from vlib.runner import result, HELD, VIOL, SKIP, INCO  # noqa: E402
from vlib import refmath as rm  # noqa: E402
from vlib import splgen  # noqa: E402

ID = "C08"
LEVEL = "exploration"
RULE = ("seeded spline spaces (degree 1-5, 1-40 cells, clamped/periodic, uniform/random/graded/alternating breakpoints, "
        "general and uniform-cubic path incl. clamped with 1-3 cells); data: random, constant, spike, magnitudes spread over "
        "16 decades, complex (clamped); 1-D and 2-D (all four boundary combinations).  Monitors: data reproduced at the "
        "interpolation points (pygyro evaluator and independent evaluator on the computed coefficients), coefficients vs. "
        "dense reference solve, polynomial reproduction (monomial and Chebyshev form, value and first derivative, at "
        "breakpoints/end points/random points), wrapped periodic coefficients bit-identical.  A class is (dimension, path, "
        "degree, boundary, uniformity, data kind, monitor).  Spaces with kappa > 1e8 are skipped and counted.")
ASSUMPTIONS = ["kappa(C) computed from the reference collocation matrix; tolerance 200*eps*kappa*(1+max|x|/min(dx))*scale (conditioning of the solve and cancellation in knot differences of the input)",
               "reference evaluator: de Boor on control points (vlib.refmath)"]
REQUIRED_EVENTS = {"interp_points_compared": 1, "poly_points_compared": 1, "wrap_checks": 1, "complex_cases": 1, "interp2d_points_compared": 1}
C = 200.0


def gen_cases(tier, seed):
    rng = random.Random(80808 + seed)
    cases = []
    for nc in (1, 2, 3):
        cases.append({"kind": "1d", "cfg": {"degree": 3, "ncells": nc, "periodic": False, "kind": "uniform", "fast": True, "uniform_flag": True, "seed": nc}, "seed": nc})
    for p in range(1, 6):
        cases.append({"kind": "1d", "cfg": {"degree": p, "ncells": p + 1, "periodic": True, "kind": "graded", "fast": False, "uniform_flag": False, "seed": 10 + p}, "seed": 10 + p})
        cases.append({"kind": "1d", "cfg": {"degree": p, "ncells": p, "periodic": True, "kind": "random", "fast": False, "uniform_flag": False, "seed": 40 + p}, "seed": 40 + p})
        cases.append({"kind": "1d", "cfg": {"degree": p, "ncells": p, "periodic": True, "kind": "uniform", "fast": p == 3, "uniform_flag": True, "seed": 50 + p}, "seed": 50 + p})
        cases.append({"kind": "1d", "cfg": {"degree": p, "ncells": 1, "periodic": False, "kind": "uniform", "fast": False, "uniform_flag": False, "seed": 20 + p}, "seed": 20 + p})
    for k in range(260 if tier == "quick" else 40000):
        cfg = splgen.random_cfg(rng, max_degree=5)
        if cfg["fast"] and not cfg["periodic"] and rng.random() < 0.3:
            cfg["ncells"] = rng.choice([1, 2, 3])
        cases.append({"kind": "1d", "cfg": cfg, "seed": rng.randrange(1 << 30), "cost": cfg["ncells"]})
    for k in range(60 if tier == "quick" else 8000):
        fast = rng.random() < 0.35
        c1 = splgen.random_cfg(rng, max_degree=5, max_cells=12, allow_fast=False)
        c2 = splgen.random_cfg(rng, max_degree=5, max_cells=12, allow_fast=False)
        if fast:
            for c in (c1, c2):
                c.update(degree=3, kind="uniform", fast=True, uniform_flag=True)
                c["ncells"] = max(c["ncells"], 4)
        cases.append({"kind": "2d", "cfg1": c1, "cfg2": c2, "seed": rng.randrange(1 << 30), "cost": 3 * c1["ncells"] * c2["ncells"]})
    return cases


def _name(cfg):
    return "%s/p%d/%s/%s" % ("fast" if cfg["fast"] else "general", cfg["degree"], "periodic" if cfg["periodic"] else "clamped", cfg["kind"])


def _data_vectors(rs, n, xs):
    out = [("random", rs.standard_normal(n)), ("constant", np.full(n, rs.uniform(-3, 3))),
           ("decades", rs.standard_normal(n) * 10.0 ** rs.uniform(-8, 8, n))]
    sp = np.zeros(n)
    sp[rs.randint(n)] = 1.0
    out.append(("spike", sp))
    # interpolation is linear: uniformly tiny / huge data must be reproduced with the same RELATIVE accuracy
    out.append(("tiny", rs.standard_normal(n) * 10.0 ** rs.uniform(-300, -9)))
    out.append(("huge", rs.standard_normal(n) * 10.0 ** rs.uniform(9, 200)))
    return out


def run_case(case):
    import pygyro.splines as spl
    paths.assert_repo(spl)
    if case["kind"] == "1d":
        return _case_1d(case, spl)
    return _case_2d(case, spl)


def _ref_space(basis):
    T = rm.knots_of(basis)
    p = basis.degree
    xs = np.asarray(basis.greville, dtype=float)
    nb = basis.nbasis
    M = rm.collocation(T, p, xs, periodic_nb=nb if basis.periodic else None)
    return T, p, xs, M


def _case_1d(case, spl):
    cfg = case["cfg"]
    basis, breaks = splgen.make_basis(spl, cfg, random.Random(cfg["seed"]))
    cfg = dict(cfg, fast=bool(basis.cubic_uniform))
    name = "1d/" + _name(cfg)
    T, p, xs, M = _ref_space(basis)
    nb = basis.nbasis
    n = basis.ncells + p
    kappa = np.linalg.cond(M)
    if not np.isfinite(kappa) or kappa > 1e8:
        return result(SKIP, what="kappa=%.3g" % kappa)
    # basis values are formed from differences of absolute coordinates: the INPUT's rounding contributes
    # eps*max|x|/min(dx) to every collocation entry, on top of the conditioning of the solve
    a_, b_ = [float(v) for v in basis.domain]
    kappa = kappa * (1.0 + max(abs(a_), abs(b_)) / float(np.min(np.diff(breaks))))
    rs = np.random.RandomState(case["seed"] % (1 << 31))
    cls = set()
    ev = {"interp_points_compared": 0, "poly_points_compared": 0, "wrap_checks": 0, "complex_cases": 0, "coeff_vectors_compared": 0}
    wit0 = {"cfg": cfg, "breaks": [float(b) for b in breaks], "kappa": float(kappa)}
    interp = spl.SplineInterpolator1D(basis)
    datas = _data_vectors(rs, nb, xs)
    s_shared = spl.Spline1D(basis)
    interp_q = spl.SplineInterpolator1D(basis)
    interp_q.get_quadrature_coefficients()
    datas.insert(2, ("zeros", np.zeros(nb)))          # exactly zero data into a spline that held something else before
    for di, (dname, u) in enumerate(datas):
        # every second data set goes into the SAME spline object (coefficients of the previous interpolation still in it)
        s = s_shared if di >= 1 else spl.Spline1D(basis)
        if di == 1:
            interp.get_quadrature_coefficients()       # the other use of the same interpolator object, in between
        u_given = np.ascontiguousarray(u, dtype=float).copy()
        # odd data sets go through a second interpolator whose FIRST use was a quadrature request
        (interp_q if di % 2 else interp).compute_interpolant(u_given, s)
        if not np.array_equal(u_given, u):
            return result(VIOL, cls=sorted(cls), events=ev, key="C08:input-data-modified", what="%s data=%s: compute_interpolant modified the data array it was given (max change %.3g)"
                          % (name, dname, float(np.abs(u_given - u).max())), witness=dict(wit0, u=u.tolist()))
        c = s.coeffs.copy()
        scale = float(np.abs(u).max()) + 1e-300
        tol = C * rm.EPS * kappa * scale
        got = s.eval(xs.copy())
        if dname == "zeros" and float(np.abs(c).max()) != 0.0:
            return result(VIOL, cls=sorted(cls), events=ev, key="C08:zero-data-nonzero-spline", what="%s: interpolating exactly zero data into a re-used spline leaves non-zero coefficients (max %.3g)"
                          % (name, float(np.abs(c).max())), witness=dict(wit0))
        got_ref = rm.spline_eval(T, c, p, xs)
        ev["interp_points_compared"] += 2 * nb
        cls.add("%s/%s/data-at-points" % (name, dname))
        for which, g in (("pygyro evaluator", got), ("independent evaluator on pygyro's coefficients", got_ref)):
            if not np.all(np.abs(g - u) <= tol):
                i = int(np.abs(g - u).argmax())
                return result(VIOL, cls=sorted(cls), events=ev, key="C08:1d-data-not-reproduced/%s" % ("fast" if cfg["fast"] else "general"),
                              what="%s data=%s: interpolant(%s) at interpolation point %d (x=%r) is %r, datum %r (tol %.3g, kappa %.3g)"
                              % (name, dname, which, i, xs[i], g[i], u[i], tol, kappa), witness=dict(wit0, u=u.tolist()))
        # coefficients vs dense reference solve
        cref = np.linalg.solve(M, u)
        ev["coeff_vectors_compared"] += 1
        if not np.all(np.abs(c[:nb] - cref) <= C * rm.EPS * kappa * np.abs(cref).max() + 1e-300):
            return result(VIOL, cls=sorted(cls), events=ev, key="C08:1d-coefficients", what="%s data=%s: coefficients differ from dense reference solve by %.3g"
                          % (name, dname, float(np.abs(c[:nb] - cref).max())), witness=dict(wit0, u=u.tolist()))
        if basis.periodic:
            ev["wrap_checks"] += 1
            cls.add("%s/wrap" % name)
            if not np.all(np.abs(c[nb:nb + p] - c[:p]) <= 8 * rm.EPS * (float(np.abs(c).max()) + 1e-300)):
                return result(VIOL, cls=sorted(cls), events=ev, key="C08:periodic-wrap", what="%s: wrapped coefficients %r differ from leading ones %r"
                              % (name, c[nb:nb + p], c[:p]), witness=dict(wit0, u=u.tolist()))
    # polynomial reproduction on clamped spaces
    if not basis.periodic:
        a, b = basis.domain
        mid, half = 0.5 * (a + b), 0.5 * (b - a)
        ptsx = np.concatenate([breaks, [a, b, np.nextafter(a, b), np.nextafter(b, a)], rs.uniform(a, b, 12)])
        for form in ("monomial", "chebyshev"):
            for deg in sorted(set([0, 1, p, rs.randint(0, p + 1)])):
                co = rs.standard_normal(deg + 1)
                if form == "monomial":
                    poly = np.polynomial.Polynomial(co, domain=[a, b], window=[-1, 1])
                else:
                    poly = np.polynomial.Chebyshev(co, domain=[a, b], window=[-1, 1])
                u = poly(xs)
                s = spl.Spline1D(basis)
                interp.compute_interpolant(u.copy(), s)
                scale = float(np.abs(co).sum())
                for der in (0, 1):
                    if der == 1 and p == 1:
                        continue
                    exact = poly.deriv(der)(ptsx) if der else poly(ptsx)
                    got = s.eval(ptsx.copy(), der)
                    tol = C * rm.EPS * kappa * scale * ((4 * p * p / float(np.min(np.diff(breaks)))) if der else 1.0) * (deg + 1)
                    ev["poly_points_compared"] += len(ptsx)
                    cls.add("%s/poly-%s/deg%s/der%d" % (name, form, "p" if deg == p else ("low" if deg < p else "x"), der))
                    if not np.all(np.abs(got - exact) <= tol):
                        i = int(np.abs(got - exact).argmax())
                        return result(VIOL, cls=sorted(cls), events=ev, key="C08:polynomial-not-reproduced/%s" % ("fast" if cfg["fast"] else "general"),
                                      what="%s: %s polynomial of degree %d, derivative %d, at x=%r: spline %r, polynomial %r (tol %.3g)"
                                      % (name, form, deg, der, ptsx[i], got[i], exact[i], tol), witness=dict(wit0, coef=co.tolist(), form=form))
        # complex data on clamped spaces; the complex type spelled as Python's, as numpy's scalar type or as a numpy dtype object
        spelling = case["seed"] % 3
        cdtype = (complex, np.complex128, np.dtype(complex))[spelling]
        ci = spl.SplineInterpolator1D(basis, dtype=cdtype)
        u = rs.standard_normal(nb) + 1j * rs.standard_normal(nb)
        s = spl.Spline1D(basis, dtype=complex)
        ci.compute_interpolant(u.copy(), s)
        c = s.coeffs.copy()
        ev["complex_cases"] += 1
        cls.add("%s/complex/%s" % (name, ("python-complex", "numpy-complex128", "numpy-dtype")[spelling]))
        g = rm.spline_eval(T, c, p, xs)
        tol = C * rm.EPS * kappa * float(np.abs(u).max())
        cref = np.linalg.solve(M.astype(complex), u)
        if not np.all(np.abs(g - u) <= tol) or not np.all(np.abs(c[:nb] - cref) <= C * rm.EPS * kappa * np.abs(cref).max()):
            key = "C08:complex-data-not-reproduced" if spelling == 0 else "C08:complex-data-not-reproduced/dtype-given-as-numpy-type"
            return result(VIOL, cls=sorted(cls), events=ev, key=key, what="%s: complex data not reproduced by SplineInterpolator1D(basis, dtype=%r) (max err %.3g, tol %.3g, max |imaginary part of the coefficients| %.3g)"
                          % (name, cdtype, float(np.abs(g - u).max()), tol, float(np.abs(c.imag).max())), witness=dict(wit0, dtype=repr(cdtype)))
        # history: real-typed data through the same complex interpolator into the same complex spline
        ur = rs.standard_normal(nb)
        ci.compute_interpolant(ur.copy(), s)
        c2 = s.coeffs.copy()
        cls.add("%s/complex/real-data-after-complex" % name)
        g2 = rm.spline_eval(T, c2, p, xs)
        tol2 = C * rm.EPS * kappa * float(np.abs(ur).max())
        if not np.all(np.abs(g2 - ur) <= tol2):
            return result(VIOL, cls=sorted(cls), events=ev, key="C08:complex-interpolator/real-data-after-complex-data",
                          what="%s: real data interpolated by a complex interpolator into a spline that held complex coefficients before: data not reproduced (max err %.3g, of which imaginary %.3g; tol %.3g)"
                          % (name, float(np.abs(g2 - ur).max()), float(np.abs(g2.imag).max()), tol2), witness=dict(wit0))
    return result(HELD, cls=sorted(cls), events=ev, n_eval=ev["interp_points_compared"] + ev["poly_points_compared"])


def _case_2d(case, spl):
    b1, br1 = splgen.make_basis(spl, case["cfg1"], random.Random(case["cfg1"]["seed"]))
    b2, br2 = splgen.make_basis(spl, case["cfg2"], random.Random(case["cfg2"]["seed"]))
    if b1.cubic_uniform != b2.cubic_uniform:
        return result(SKIP, what="mixed fast/general 2-D space")
    T1, p1, x1, M1 = _ref_space(b1)
    T2, p2, x2, M2 = _ref_space(b2)
    k1, k2 = np.linalg.cond(M1), np.linalg.cond(M2)
    if k1 * k2 > 1e8:
        return result(SKIP, what="kappa=%.3g" % (k1 * k2))
    k1 = k1 * (1.0 + max(abs(float(b1.domain[0])), abs(float(b1.domain[1]))) / float(np.min(np.diff(br1))))
    k2 = k2 * (1.0 + max(abs(float(b2.domain[0])), abs(float(b2.domain[1]))) / float(np.min(np.diff(br2))))
    name = "2d/%s/p%d%s-p%d%s/%s-%s" % ("fast" if b1.cubic_uniform else "general", p1, "P" if b1.periodic else "C", p2, "P" if b2.periodic else "C",
                                         case["cfg1"]["kind"], case["cfg2"]["kind"])
    rs = np.random.RandomState(case["seed"] % (1 << 31))
    n1, n2 = b1.nbasis, b2.nbasis
    interp = spl.SplineInterpolator2D(b1, b2)
    cls, ev = set(), {"interp2d_points_compared": 0, "wrap_checks": 0, "poly_points_compared": 0}
    wit = {"cfg1": case["cfg1"], "cfg2": case["cfg2"], "seed": case["seed"]}
    for dname in ("random", "decades", "tiny", "tiny-rows", "separable-poly"):
        if dname == "random":
            U = rs.standard_normal((n1, n2))
        elif dname == "tiny":
            U = rs.standard_normal((n1, n2)) * 10.0 ** rs.uniform(-200, -9)
        elif dname == "tiny-rows":
            # rows of very different magnitude; the smallest ones are still far above rounding of the largest
            U = rs.standard_normal((n1, n2)) * (10.0 ** rs.choice([0.0, -9.0, -10.0], size=n1))[:, None]
        elif dname == "decades":
            U = rs.standard_normal((n1, n2)) * 10.0 ** rs.uniform(-6, 6, (n1, n2))
        else:
            if b1.periodic or b2.periodic:
                continue
            q1 = np.polynomial.Polynomial(rs.standard_normal(p1 + 1), domain=list(b1.domain), window=[-1, 1])
            q2 = np.polynomial.Polynomial(rs.standard_normal(p2 + 1), domain=list(b2.domain), window=[-1, 1])
            U = np.outer(q1(x1), q2(x2))
        s = spl.Spline2D(b1, b2)
        U_given = np.ascontiguousarray(U, dtype=float).copy()
        interp.compute_interpolant(U_given, spl.Spline2D(b1, b2))       # first use of the caller's array ...
        interp.compute_interpolant(U_given, s)                            # ... and the same array again
        if not np.array_equal(U_given, U):
            return result(VIOL, cls=sorted(cls), events=ev, key="C08:input-data-modified", what="%s data=%s: the 2-D interpolator modified the data matrix it was given (max change %.3g)"
                          % (name, dname, float(np.abs(U_given - U).max())), witness=wit)
        Cf = s.coeffs.copy()
        scale = float(np.abs(U).max()) + 1e-300
        tol = C * rm.EPS * k1 * k2 * scale
        got = s.eval(x1.copy(), x2.copy())
        ref = rm.spline2d_eval(T1, p1, T2, p2, Cf, x1, x2)
        ev["interp2d_points_compared"] += 2 * n1 * n2
        cls.add("%s/%s/data-at-points" % (name, dname))
        for which, g in (("pygyro evaluator", got), ("independent evaluator", ref)):
            if not np.all(np.abs(g - U) <= tol):
                return result(VIOL, cls=sorted(cls), events=ev, key="C08:2d-data-not-reproduced", what="%s data=%s: 2-D interpolant (%s) misses its data by %.3g (tol %.3g)"
                              % (name, dname, which, float(np.abs(g - U).max()), tol), witness=wit)
        if b1.periodic:
            ev["wrap_checks"] += 1
            if not np.all(np.abs(Cf[n1:n1 + p1, :] - Cf[:p1, :]) <= 8 * rm.EPS * (float(np.abs(Cf).max()) + 1e-300)):
                return result(VIOL, cls=sorted(cls), events=ev, key="C08:periodic-wrap-2d", what="%s: wrapped coefficients along x1 differ" % name, witness=wit)
        if b2.periodic:
            ev["wrap_checks"] += 1
            if not np.all(np.abs(Cf[:, n2:n2 + p2] - Cf[:, :p2]) <= 8 * rm.EPS * (float(np.abs(Cf).max()) + 1e-300)):
                return result(VIOL, cls=sorted(cls), events=ev, key="C08:periodic-wrap-2d", what="%s: wrapped coefficients along x2 differ" % name, witness=wit)
        if dname == "separable-poly":
            y1 = np.concatenate([br1, rs.uniform(*b1.domain, 5)])
            y2 = np.concatenate([br2, rs.uniform(*b2.domain, 5)])
            exact = np.outer(q1(y1), q2(y2))
            g = s.eval(y1.copy(), y2.copy())
            ev["poly_points_compared"] += g.size
            cls.add("%s/poly2d" % name)
            sc = float(np.abs(q1.coef).sum() * np.abs(q2.coef).sum())
            if not np.all(np.abs(g - exact) <= C * rm.EPS * k1 * k2 * sc * (p1 + 1) * (p2 + 1)):
                return result(VIOL, cls=sorted(cls), events=ev, key="C08:2d-polynomial-not-reproduced", what="%s: tensor polynomial not reproduced (err %.3g)"
                              % (name, float(np.abs(g - exact).max())), witness=wit)
    return result(HELD, cls=sorted(cls), events=ev, n_eval=ev["interp2d_points_compared"] + ev["poly_points_compared"])
