"""C09 -- spline quadrature weights integrate the interpolant exactly.

Oracle: q.u vs. the exact integral (composite Gauss-Legendre, p//2+2 points per cell) of the
spline interpolating u (coefficients from pygyro's interpolator, checked by C08, and from the dense
reference solve), evaluated by the independent de Boor evaluator; sum(q) = b-a; equal weights on
uniform periodic spaces; basis.integrals[i] vs. exact integral of the (unwrapped) basis function i.
"""
import random

import numpy as np

from vlib import paths
paths.setup()
from vlib.runner import result, HELD, VIOL, SKIP, INCO  # noqa: E402
from vlib import refmath as rm  # noqa: E402
from vlib import splgen  # noqa: E402

ID = "C09"
LEVEL = "exploration"
RULE = ("seeded spline spaces (degree 1-5, 1-40 cells, clamped/periodic, uniform/random/graded/alternating breakpoints, "
        "general and uniform-cubic path incl. clamped with 1-3 cells); data vectors: random, ones, spike, polynomial samples, "
        "16-decade magnitudes.  Monitors: q.u vs exact Gauss-Legendre integral of the interpolant, sum(q)=b-a, equal weights "
        "(uniform periodic), stored basis integrals vs exact integrals.  A class is (path, degree, boundary, uniformity, "
        "monitor, data kind).  Spaces with kappa > 1e8 skipped and counted.")
ASSUMPTIONS = ["Gauss-Legendre with p//2+2 points per cell is exact for degree-p piecewise polynomials",
               "tolerance 200*eps*(kappa + max|x|/min(dx))*scale*(b-a): conditioning of the collocation solve plus cancellation in knot differences of the input"]
REQUIRED_EVENTS = {"quadrature_products_compared": 1, "weight_sums": 1, "basis_integrals_compared": 1, "uniform_periodic_equal_weights": 1}
C = 200.0
KEY_FAST_SMALL = "C09:cubic-uniform/clamped/ncells<3"


def gen_cases(tier, seed):
    rng = random.Random(90909 + seed)
    cases = []
    for nc in (1, 2, 3, 4):
        cases.append({"kind": "q", "cfg": {"degree": 3, "ncells": nc, "periodic": False, "kind": "uniform", "fast": True, "uniform_flag": True, "seed": nc}, "seed": nc})
    for p in range(1, 6):
        for kind in ("uniform", "random", "graded"):
            cases.append({"kind": "q", "cfg": {"degree": p, "ncells": p + 2, "periodic": True, "kind": kind, "fast": False, "uniform_flag": False, "seed": 30 + p}, "seed": 30 + p})
            cases.append({"kind": "q", "cfg": {"degree": p, "ncells": p, "periodic": True, "kind": kind, "fast": False, "uniform_flag": kind == "uniform", "seed": 60 + p}, "seed": 60 + p})
    for k in range(300 if tier == "quick" else 60000):
        cfg = splgen.random_cfg(rng, max_degree=5)
        if cfg["fast"] and not cfg["periodic"] and rng.random() < 0.2:
            cfg["ncells"] = rng.choice([1, 2, 3])
        cases.append({"kind": "q", "cfg": cfg, "seed": rng.randrange(1 << 30), "cost": cfg["ncells"]})
    return cases


def _name(cfg):
    return "%s/p%d/%s/%s" % ("fast" if cfg["fast"] else "general", cfg["degree"], "periodic" if cfg["periodic"] else "clamped", cfg["kind"])


def _key(cfg, monitor):
    if cfg["fast"] and not cfg["periodic"] and cfg["ncells"] < 3:
        return KEY_FAST_SMALL
    return "C09:%s/%s/%s" % (monitor, "fast" if cfg["fast"] else "general", "periodic" if cfg["periodic"] else "clamped")


def run_case(case):
    import pygyro.splines as spl
    paths.assert_repo(spl)
    cfg = case["cfg"]
    basis, breaks = splgen.make_basis(spl, cfg, random.Random(cfg["seed"]))
    cfg = dict(cfg, fast=bool(basis.cubic_uniform))
    name = _name(cfg)
    T = rm.knots_of(basis)
    p = basis.degree
    xs = np.asarray(basis.greville, dtype=float)
    nb = basis.nbasis
    M = rm.collocation(T, p, xs, periodic_nb=nb if basis.periodic else None)
    kappa = np.linalg.cond(M)
    if not np.isfinite(kappa) or kappa > 1e8:
        return result(SKIP, what="kappa=%.3g" % kappa)
    kappa_only = kappa
    a, b = [float(v) for v in basis.domain]
    L = b - a
    # knot differences are formed from absolute coordinates: rounding of the INPUT contributes eps*max|x|/min(dx)
    cancel = max(abs(a), abs(b)) / float(np.min(np.diff(breaks)))
    kappa = kappa + cancel
    rs = np.random.RandomState(case["seed"] % (1 << 31))
    cls = set()
    ev = {"quadrature_products_compared": 0, "weight_sums": 0, "basis_integrals_compared": 0, "uniform_periodic_equal_weights": 0}
    wit0 = {"cfg": cfg, "breaks": [float(x) for x in breaks], "kappa": float(kappa_only), "cancel": float(cancel)}
    interp = spl.SplineInterpolator1D(basis)
    q = np.array(interp.get_quadrature_coefficients(), dtype=float, copy=True)
    # history: asking again (same interpolator, and a second interpolator on the same space object) must give the same weights
    q_again = np.array(interp.get_quadrature_coefficients(), dtype=float, copy=True)
    q_other = np.array(spl.SplineInterpolator1D(basis).get_quadrature_coefficients(), dtype=float, copy=True)
    if q.shape == q_again.shape == q_other.shape and not (np.allclose(q, q_again, rtol=1e-12, atol=1e-300) and np.allclose(q, q_other, rtol=1e-12, atol=1e-300)):
        return result(VIOL, cls=[name], events=ev, key=_key(cfg, "repeated-call"), what="%s: quadrature weights change when requested again for the same space (max change %.3g / %.3g)"
                      % (name, float(np.abs(q - q_again).max()), float(np.abs(q - q_other).max())), witness=wit0)
    # representations of the same request: an interpolator for COMPLEX data (every spelling of the type) must hand out the same (real)
    # weights; and the same space built from integer-typed knots (integer break points) must have the same integrals and weights
    if q.shape == (nb,):
        spelling = (complex, np.complex128, np.dtype(complex), "complex128")[case["seed"] % 4]
        qc = np.array(spl.SplineInterpolator1D(basis, dtype=spelling).get_quadrature_coefficients(), copy=True)
        ev["complex_interpolator_weights"] = ev.get("complex_interpolator_weights", 0) + 1
        tolc = 1e3 * rm.EPS * kappa * float(np.abs(q).max()) + 1e-300
        if qc.shape != q.shape or not np.all(np.abs(qc - q) <= tolc):
            return result(VIOL, cls=[name], events=ev, key=_key(cfg, "complex-interpolator-weights"),
                          what="%s: the interpolator for complex data (dtype=%r) hands out other quadrature weights than the real one (max difference %.3g, tol %.3g)"
                          % (name, spelling, float(np.abs(qc - q).max()) if qc.shape == q.shape else float("nan"), tolc), witness=wit0)
        ib = np.concatenate(([0], np.cumsum(rs.randint(1, 4, size=len(breaks) - 1)))) if not (cfg.get("fast") or cfg.get("kind") == "uniform") else np.arange(len(breaks)) * 2
        kf = spl.make_knots(ib.astype(float), int(p), bool(basis.periodic))
        flag = bool(getattr(basis, "cubic_uniform", False)) or bool(cfg.get("uniform_flag"))
        variants = {"float": kf, "int64": kf.astype(np.int64), "int32": kf.astype(np.int32), "list-of-int": [int(x) for x in kf]}
        got = {}
        for vn, kts in variants.items():
            bv = spl.BSplines(kts, int(p), bool(basis.periodic), flag)
            got[vn] = (np.array(bv.integrals, dtype=float, copy=True), np.array(spl.SplineInterpolator1D(bv).get_quadrature_coefficients(), dtype=float, copy=True))
        ev["integer_knot_spaces"] = ev.get("integer_knot_spaces", 0) + 1
        for vn in ("int64", "int32", "list-of-int"):
            for what_, a_, b_ in (("basis integrals", got[vn][0], got["float"][0]), ("quadrature weights", got[vn][1], got["float"][1])):
                if a_.shape != b_.shape or not np.allclose(a_, b_, rtol=1e-12, atol=1e-300):
                    return result(VIOL, cls=[name], events=ev, key=_key(cfg, "integer-typed-knots"),
                                  what="%s: %s of the space built from %s knots differ from those built from the same knots as floats (max difference %.3g)"
                                  % (name, what_, vn, float(np.abs(a_ - b_).max()) if a_.shape == b_.shape else float("nan")), witness=dict(wit0, int_breaks=[int(x) for x in ib]))
    if q.shape != (nb,):
        return result(VIOL, cls=[name], events=ev, key=_key(cfg, "shape"), what="%s: %d quadrature weights for %d interpolation points" % (name, q.size, nb), witness=wit0)
    # stored basis integrals vs exact
    gx, gw = rm.gauss_legendre(breaks, p // 2 + 2)
    allB = np.array([rm.basis_all(T, p, x) for x in gx])        # (nq, n)
    exactI = gw @ allB
    stored = np.asarray(basis.integrals, dtype=float)
    if basis.periodic and stored.shape == exactI.shape:
        # weaker reading for periodic spaces (see DESIGN.md, C09): a periodic basis function is the sum of
        # its unwrapped pieces, so only the folded integrals stored[i] + stored[n+i] are demanded
        def fold(v):
            f = v[:nb].copy()
            f[:len(v) - nb] += v[nb:]
            return f
        stored, exactI = fold(stored), fold(exactI)
    ev["basis_integrals_compared"] += len(exactI)
    cls.add("%s/basis-integrals" % name)
    if stored.shape != exactI.shape or not np.all(np.abs(stored - exactI) <= C * rm.EPS * L * (p + 1) * (1 + cancel)):
        j = int(np.abs(stored - exactI).argmax()) if stored.shape == exactI.shape else -1
        return result(VIOL, cls=sorted(cls), events=ev, key=_key(cfg, "basis-integrals"),
                      what="%s: stored integral of basis function %d is %r, exact %r" % (name, j, stored[j] if j >= 0 else stored.shape, exactI[j] if j >= 0 else exactI.shape),
                      witness=dict(wit0, stored=stored.tolist(), exact=exactI.tolist()))
    ev["weight_sums"] += 1
    cls.add("%s/weight-sum" % name)
    if not abs(q.sum() - L) <= C * rm.EPS * kappa * L:
        return result(VIOL, cls=sorted(cls), events=ev, key=_key(cfg, "weight-sum"), what="%s: weights sum to %r, domain length %r" % (name, q.sum(), L),
                      witness=dict(wit0, q=q.tolist()))
    if basis.periodic and cfg["kind"] == "uniform":
        ev["uniform_periodic_equal_weights"] += 1
        cls.add("%s/equal-weights" % name)
        if not np.all(np.abs(q - L / nb) <= C * rm.EPS * kappa * L / nb):
            return result(VIOL, cls=sorted(cls), events=ev, key=_key(cfg, "equal-weights"), what="%s: uniform periodic weights not all equal: %r" % (name, q[:6]),
                          witness=dict(wit0, q=q.tolist()))
    datas = [("random", rs.standard_normal(nb)), ("ones", np.ones(nb)), ("decades", rs.standard_normal(nb) * 10.0 ** rs.uniform(-8, 8, nb)),
             ("poly", np.polynomial.Polynomial(rs.standard_normal(p + 1), domain=[a, b], window=[-1, 1])(xs))]
    sp = np.zeros(nb)
    sp[rs.randint(nb)] = 1.0
    datas.append(("spike", sp))
    for dname, u in datas:
        s = spl.Spline1D(basis)
        interp.compute_interpolant(u.copy(), s)
        c_py = s.coeffs.copy()
        c_ref = np.linalg.solve(M, u)
        n = len(T) - p - 1
        full = np.zeros(n)
        full[:nb] = c_ref
        if basis.periodic:
            full[nb:] = c_ref[:n - nb]
        exact_ref = float(gw @ rm.spline_eval(T, full, p, gx))
        exact_py = float(gw @ rm.spline_eval(T, c_py, p, gx))
        got = float(q @ u)
        scale = float(np.abs(u).max()) * L + 1e-300
        tol = C * rm.EPS * kappa * scale
        ev["quadrature_products_compared"] += 1
        cls.add("%s/q.u/%s" % (name, dname))
        if not abs(exact_ref - exact_py) <= tol:
            # pygyro's interpolant itself is off (C08 territory); still a C09 failure of "the spline interpolating those data"
            return result(VIOL, cls=sorted(cls), events=ev, key=_key(cfg, "interpolant"), what="%s data=%s: integral of pygyro's interpolant %r != integral of reference interpolant %r"
                          % (name, dname, exact_py, exact_ref), witness=dict(wit0, u=u.tolist()))
        if not abs(got - exact_ref) <= tol:
            return result(VIOL, cls=sorted(cls), events=ev, key=_key(cfg, "q.u"), what="%s data=%s: q.u = %r but the interpolant integrates to %r (tol %.3g)"
                          % (name, dname, got, exact_ref, tol), witness=dict(wit0, u=u.tolist(), q=q.tolist()))
    return result(HELD, cls=sorted(cls), events=ev, n_eval=ev["quadrature_products_compared"] + ev["basis_integrals_compared"] + 2)
