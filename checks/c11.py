"""C11 -- v-parallel advection evaluates the interpolant at v - c*dt; boundary rule; gradient wiring.

(a) step level: VParallelAdvection.step vs. an independent interpolate-and-shift (dense collocation
    solve + de Boor) with the three boundary rules;
(b) grid level: gridStep / gridStepKeepGradient on P simulated ranks vs. the reference applied line
    by line with c = parallel gradient (C13 reference formula) of the assembled GLOBAL potential at
    the same global (r,z,theta).
"""
import random
from math import pi

import numpy as np

from vlib import paths, argrep
paths.setup()
from vlib.runner import result, HELD, VIOL, SKIP, INCO  # noqa: E402
from vlib import refmath as rm  # noqa: E402
from vlib import physgen as pg  # noqa: E402

ID = "C11"
LEVEL = "exploration"
NEEDS_SIMMPI = True
RULE = ("(a) seeded v-spaces (5-40 nodes, degree 2-5 general path and the uniform-cubic fast path), the three boundary "
        "modes, c*dt in {0, +-tiny, +-fraction of a cell, +-several cells, +-(domain+eps), +-3 domains}, several radii, random "
        "nodal values; every node compared (nodes whose foot is within 1e-9 of an end point excluded when c*dt != 0). "
        "(b) grids [nr,nth,nz,nv] on process grids (1,1),(2,1),(1,2),(2,2),(3,1),(1,3),(2,3),(3,2): random global f and "
        "potential scattered to the ranks, gridStep, gridStepKeepGradient and gridStep again (same operator objects), every rank's block compared with the "
        "reference computed from GLOBAL coordinates.  A class is (level, spline path, boundary mode, shift class) for (a) "
        "and (which of r|z is split, iota class, operator) for (b).")
ASSUMPTIONS = ["simulated MPI (self-tested) for (b)", "reference = dense collocation solve + de Boor; parallel-gradient reference as in C13",
               "periodic rule: feet inside the closed interval are not wrapped; a wrapped foot landing on an end point may take either end value"]
REQUIRED_EVENTS = {"nodes_compared": 1, "outside_feet": 1, "grid_lines_compared": 1, "z_split_runs": 1, "r_split_runs": 1}
C = 200.0
KEY_ZIDX = "C11:gridStep/z-distributed/gradient-table-indexed-with-local-z"


def gen_cases(tier, seed):
    rng = random.Random(111111 + seed)
    cases = []
    for k in range(150 if tier == "quick" else 20000):
        deg = rng.choice([2, 3, 3, 3, 4, 5])
        cases.append({"kind": "step", "deg": deg, "nv": rng.randint(max(5, deg + 2), 40), "edge": rng.choice(["fEq", "null", "periodic"]),
                      "seed": rng.randrange(1 << 30), "cost": 5})
    grids = [(1, 1), (2, 1), (1, 2), (2, 2), (3, 1), (1, 3), (2, 3), (3, 2)]
    reps = 1 if tier == "quick" else 12
    for rep in range(reps):
        for (p0, p1) in grids:
            for iota in (0.0, 0.8):
                cases.append({"kind": "grid", "nprocs": [p0, p1], "iota": iota, "npts": [rng.choice([5, 6, 7]), rng.choice([5, 6, 8]), rng.choice([7, 8, 9]), rng.choice([6, 7, 8])],
                              "edge": rng.choice(["fEq", "fEq", "null", "periodic"]), "seed": rng.randrange(1 << 30), "cost": 300})
    return cases


class VRef:
    def __init__(self, basis, pts):
        self.ref = pg.PeriodicSplineRef(basis, pts)   # works for clamped bases too
        self.pts = np.asarray(pts, dtype=float)
        self.vMin, self.vMax = float(pts[0]), float(pts[-1])
        self.p = basis.degree
        self.dvmin = float(np.min(np.diff(pts)))

    def step(self, f, shift, r, c, edge, exact=False):
        """-> (new values, mask of judged nodes, n feet outside); exact: all numbers are exactly representable, so a foot
        that EQUALS an end point is inside the closed domain and is judged"""
        feet = self.pts - shift
        vD = self.vMax - self.vMin
        inside = (feet >= self.vMin) & (feet <= self.vMax)
        judged = np.ones(len(feet), bool)
        if shift != 0.0:
            near = (np.abs(feet - self.vMin) < 1e-9 * vD) | (np.abs(feet - self.vMax) < 1e-9 * vD)
            if exact:
                near &= (feet != self.vMin) & (feet != self.vMax)
            judged &= ~near
        new = np.empty(len(feet))
        alt = np.full(len(feet), np.nan)
        if edge == "periodic":
            w = np.where(inside, feet, self.vMin + np.mod(feet - self.vMin, vD))
            w = np.clip(w, self.vMin, self.vMax)
            new[:] = self.ref.eval(f, w)
            onend = ~inside & ((np.abs(w - self.vMin) < 1e-9 * vD) | (np.abs(w - self.vMax) < 1e-9 * vD))
            if onend.any():
                other = np.where(np.abs(w - self.vMin) < 1e-9 * vD, self.vMax, self.vMin)
                alt[onend] = self.ref.eval(f, other[onend])
        else:
            new[inside] = self.ref.eval(f, feet[inside]) if inside.any() else []
            if edge == "fEq":
                new[~inside] = pg.f_eq(r, feet[~inside], c)
            else:
                new[~inside] = 0.0
        return new, judged, int((~inside).sum()), alt


def run_case(case):
    import pygyro.splines as spl
    from pygyro.advection import advection as adv
    paths.assert_repo(adv)
    if case["kind"] == "step":
        return _step_case(case, spl, adv)
    return _grid_case(case, spl, adv)


def _step_case(case, spl, adv):
    rng = random.Random(case["seed"])
    rs = np.random.RandomState(case["seed"] % (1 << 31))
    deg, nv, edge = case["deg"], case["nv"], case["edge"]
    vMax = rng.uniform(2, 8)
    vMin = -vMax
    dom = case["seed"] % 4
    if dom == 1:
        vMin = -vMax * rng.choice([0.35, 0.6, 1.7])          # asymmetric velocity domain
    elif dom == 2:
        vMin = vMax * 0.25                                   # entirely positive velocities
    elif dom == 3:
        vMax, vMin = float(rng.choice([3, 4, 5])), -float(rng.choice([3, 4, 5, 8]))      # exactly representable end points
    c = pg.make_constants(rMin=0.3, rMax=rng.uniform(4, 12), vMax=vMax, vMin=vMin, npts=[6, 6, 8, nv], splineDegrees=[3, 3, 3, deg])
    eta, bs, _ = pg.make_space(spl, c.npts, c.splineDegrees, pg.std_domain(c))
    vref = VRef(bs[3], eta[3])
    if vref.ref.kappa > 1e8:
        return result(SKIP, what="ill conditioned v space")
    op = adv.VParallelAdvection(eta, bs[3], c, edge=edge)
    path = "fast" if bs[3].cubic_uniform else "general-p%d" % deg
    dv = (vMax - vMin) / (nv - 1)
    D = vMax - vMin
    shifts = [("zero", 0.0), ("tiny", 1e-13 * dv), ("tiny", -3e-10 * dv), ("sub-cell", rng.uniform(0.05, 0.95) * dv), ("sub-cell", -rng.uniform(0.05, 0.95) * dv),
              ("cells", rng.uniform(1.5, 6) * dv), ("cells", -rng.uniform(1.5, 6) * dv), ("domain+eps", D * (1 + 1e-6)), ("domain+eps", -D * (1 + 1e-6)),
              ("3-domains", 3 * D + rng.uniform(0, dv)), ("3-domains", -3 * D - rng.uniform(0, dv)), ("exact-domain", D), ("exact-cell", 2 * dv)]
    if dom == 3 and float(eta[3][0]) == vMin and float(eta[3][-1]) == vMax:
        shifts += [("exact-domain-representable", D), ("exact-domain-representable", -D)]
    cls, ev = set(), {"nodes_compared": 0, "outside_feet": 0, "excluded_near_boundary": 0}
    for sname, shift in shifts:
        r = rng.choice(list(eta[0]))
        dt = rng.choice([1.0, 0.5, -2.0, 7.0])
        exact = sname == "exact-domain-representable"
        if exact:
            dt = rng.choice([1.0, 0.5, -2.0, 4.0])
        cc = shift / dt
        shift_eff = cc * dt
        f0 = rs.standard_normal(nv) * rng.choice([1.0, 1e-3, 50.0])
        rep = argrep.kinds(1)[(len(cls) + case.get("seed", 0)) % len(argrep.kinds(1))]
        held = argrep.view_of(f0, rep)      # the caller's line: fresh, or a stride / column / window of a larger block
        cc_in = (cc, np.float64(cc), np.array(cc), np.array([cc, 0.0])[0:1].reshape(()))[(case.get("seed", 0) // 4 + len(cls)) % 4]   # the speed as a Python float, a numpy scalar, a 0-d array, a 0-d view
        cc_before = float(cc_in)
        op.step(held, dt, cc_in, r)
        got = np.array(held)
        if float(cc_in) != cc_before:
            return result(VIOL, cls=sorted(cls), events=ev, key="C11:step/argument-modified", what="VParallelAdvection.step changed the advection speed it was handed (a %s): %r -> %r" % (type(cc_in).__name__, cc_before, float(cc_in)), witness={"case": case})
        ev["arguments_not_c_contiguous"] = ev.get("arguments_not_c_contiguous", 0) + int(rep not in ("c", "window"))
        ref, judged, nout, alt = vref.step(f0, shift_eff, r, c, edge, exact=exact and shift_eff == shift)
        fmax = float(np.abs(f0).max())
        tol = C * rm.EPS * vref.ref.kappa * fmax * (1 + (max(abs(vMax), abs(vMin)) + abs(shift_eff)) * 2 * deg * deg / vref.dvmin) + 1e-300
        if edge == "fEq":
            tol += C * rm.EPS * 10.0
        ev["nodes_compared"] += int(judged.sum())
        ev["outside_feet"] += nout
        ev["excluded_near_boundary"] += int((~judged).sum())
        cls.add("step/%s/%s/%s" % (path, edge, sname))
        err = np.abs(got - ref)
        with np.errstate(invalid="ignore"):
            ok = (err <= tol) | (np.abs(got - alt) <= tol) | ~judged
        if not np.all(ok):
            i = int(np.argmax(~ok))
            return result(VIOL, cls=sorted(cls), events=ev, key="C11:step/%s/%s" % (edge, "fast" if bs[3].cubic_uniform else "general"),
                          what="VParallelAdvection.step(edge=%s, %s, c*dt=%.6g = %s): node %d (v=%.6g, foot %.6g) got %r, reference %r (tol %.3g)"
                          % (edge, path, shift_eff, sname, i, eta[3][i], eta[3][i] - shift_eff, got[i], ref[i], tol),
                          witness={"case": case, "shift": shift_eff, "dt": dt, "c": cc, "r": r, "f": f0.tolist(), "vMax": vMax, "rMax": c.rMax})
    return result(HELD, cls=sorted(cls), events=ev, n_eval=ev["nodes_compared"])


def _grid_case(case, spl, adv):
    from mpi4py import MPI
    from vlib import simrun
    from checks.c13 import ref_gradient
    npts, nprocs, iota, edge = case["npts"], case["nprocs"], case["iota"], case["edge"]
    if not simrun.admissible(npts, nprocs):
        return result(SKIP, what="process grid not admissible")
    P = nprocs[0] * nprocs[1]
    c = simrun.small_constants(npts, iota=iota, seed=case["seed"] % 1000)
    rs = np.random.RandomState(case["seed"] % (1 << 31))
    F0 = rs.standard_normal(npts)                              # (r, theta, z, v)
    PHI = rs.standard_normal(npts[:3]) * 0.3                    # (r, theta, z)
    dt = 0.7

    def prog(rank):
        comm = MPI.COMM_WORLD
        sim = simrun.Sim(comm, c, nprocs, layout='v_parallel', save=False)
        sim.scatter(sim.f, F0)
        sim.phi.setLayout('v_parallel_1d')
        sim.scatter(sim.phi, PHI.astype(complex) + 1j * 0.123)
        parGrad = adv.ParallelGradient(sim.bs[1], sim.eta, sim.remapperPhi.getLayout('v_parallel_1d'), c)
        vpar = adv.VParallelAdvection(sim.eta, sim.bs[3], c, edge=edge)
        pgv = np.full([sim.f.getLayout('v_parallel').shape[0], npts[2], npts[1]], np.nan)
        vpar.gridStep(sim.f, sim.phi, parGrad, pgv, dt)
        b1 = sim.block(sim.f)
        vpar.gridStepKeepGradient(sim.f, pgv, dt)
        b2 = sim.block(sim.f)
        vpar.gridStep(sim.f, sim.phi, parGrad, pgv, dt)          # same operator objects used again (a second time step)
        b3 = sim.block(sim.f)
        return b1, b2, b3

    w = MPI.run_world(P, prog, schedule="random", seed=case["seed"], timeout=800)
    ev = dict(w.events)
    err = w.first_error()
    wit = {"case": case}
    split = ("r" if nprocs[0] > 1 else "") + ("z" if nprocs[1] > 1 else "") or "none"
    base = "grid/split-%s/iota-%s/%s" % (split, "zero" if iota == 0 else "nonzero", edge)
    if err is not None:
        wit["traceback"] = (w.tracebacks[err[0]] or "")[-2500:]
        return result(VIOL, cls=[base + "/exception"], events=ev, key="C11:grid-exception:%s" % type(err[1]).__name__,
                      what="rank %d raised %r on process grid %r" % (err[0], err[1], nprocs), witness=wit)
    # ---- reference from GLOBAL coordinates ------------------------------------------------------------
    eta, bs, _ = pg.make_space(spl, c.npts, c.splineDegrees, pg.std_domain(c))
    thetaref = pg.PeriodicSplineRef(bs[1], eta[1])
    vref = VRef(bs[3], eta[3])
    dz = eta[2][1] - eta[2][0]
    iota_all = c.iota(eta[0])
    nr, nth, nz, nv = npts
    offs = list(range(-3, 4))
    Gr = np.empty((nr, nz, nth))
    for i in range(nr):
        bz = float(pg.bz(eta[0][i], iota_all[i], c.R0))
        Gr[i], wsum = ref_gradient(PHI[i].T.copy(), thetaref, eta[1], dz, offs, bz, float(iota_all[i]), c.R0)   # PHI[i] is (theta,z) -> (z,theta)
    tol_c = C * rm.EPS * thetaref.kappa * float(np.abs(PHI).max()) * wsum / dz * 4
    fmax = float(np.abs(F0).max())
    Sp = 2 * 9 * vref.ref.kappa * fmax * 50 / vref.dvmin
    cur = F0
    refs = []
    judged_all = []
    nout_tot = 0
    for _pass in range(3):
        new = np.empty_like(cur)
        judged = np.ones(cur.shape, bool)
        for i in range(nr):
            for j in range(nz):
                for k in range(nth):
                    shift = Gr[i, j, k] * dt
                    nv_, jd, nout, alt = vref.step(cur[i, k, j, :], shift, eta[0][i], c, edge)
                    if np.isfinite(alt).any():
                        jd = jd & ~np.isfinite(alt)
                    new[i, k, j, :] = nv_
                    judged[i, k, j, :] = jd
                    nout_tot += nout
        refs.append(new)
        judged_all.append(judged)
        cur = new
    ev["outside_feet"] = nout_tot
    ev["grid_lines_compared"] = 0
    ev["z_split_runs"] = 1 if nprocs[1] > 1 else 0
    ev["r_split_runs"] = 1 if nprocs[0] > 1 else 0
    ev["nodes_compared"] = 0
    cls = set()
    for which, name in ((0, "gridStep"), (1, "gridStepKeepGradient"), (2, "gridStep-again")):
        G, cover = simrun.assemble([r[which] for r in w.results], tuple(npts))
        if not (cover == 1).all():
            return result(VIOL, cls=[base], events=ev, key="C11:grid-coverage", what="blocks of the ranks do not tile the global grid", witness=wit)
        tol = C * rm.EPS * vref.ref.kappa * fmax * (1 + 30 * 18 / vref.dvmin) + Sp * dt * tol_c * (which + 1) + (C * rm.EPS * 10 if edge == "fEq" else 0)
        if which >= 1:
            judged = judged_all[which]
            for prev in range(which):
                judged = judged & judged_all[prev].all(axis=3, keepdims=True)
        else:
            judged = judged_all[0]
        err_ = np.where(judged, np.abs(G - refs[which]), 0.0)
        ev["grid_lines_compared"] += nr * nz * nth
        ev["nodes_compared"] += int(judged.sum())
        cls.add("%s/%s" % (base, name))
        if not np.all(err_ <= tol):
            idx = np.unravel_index(int(err_.argmax()), err_.shape)
            key = KEY_ZIDX if nprocs[1] > 1 else "C11:grid/%s" % name
            return result(VIOL, cls=sorted(cls), events=ev, key=key,
                          what="%s on process grid %r (iota=%g, edge=%s): assembled field differs from the global-coordinate reference by %.3g (tol %.3g) at (r,theta,z,v)=%r"
                          % (name, nprocs, iota, edge, float(err_.max()), tol, tuple(int(x) for x in idx)), witness=wit)
    return result(HELD, cls=sorted(cls), events=ev, n_eval=ev["nodes_compared"], sched=str(hash(w.arrival_signature())))
