"""C15 -- quasi-neutrality pipeline: exact FFT round trip, real potential, equilibrium fixed point.

Monitors: (1) getModes then findPotential on the same grid is the identity; (2) density -> modes ->
per-mode solve -> inverse transform on P simulated ranks (through the distributed layout changes)
vs. an independent pipeline (C16 density functional, numpy.fft, dense Galerkin solve with the QN
coefficient functions per mode, m=0 convention by chi, Neumann at the inner boundary for m=0 only);
(3) imaginary part of the potential of a real density; (4) equilibrium: rho = 0 and phi = 0 exactly,
and one complete Strang step leaves f unchanged up to rounding.
"""
import random

import numpy as np

from vlib import paths
paths.setup()
from vlib.runner import result, HELD, VIOL, SKIP, INCO  # noqa: E402
from vlib import refmath as rm  # noqa: E402
from vlib import physgen as pg  # noqa: E402

ID = "C15"
LEVEL = "exploration"
NEEDS_SIMMPI = True
RULE = ("seeded set-ups: grids [nr 6-9, ntheta 4-9 even and odd, nz 7-8, nv 6-9], process grids (1,1),(2,1),(1,2),(2,2),"
        "(3,1),(1,3),(3,2),(2,3), chi in {0,1}, adiabatic or kinetic electrons, distributions = equilibrium*(1+eps*mode) with "
        "poloidal mode numbers also above ntheta/2 (aliasing bookkeeping) from pygyro's own initialiser, or equilibrium + "
        "random perturbation (relative size 0.2, and 1e-9), or one strong poloidal mode with side bands nine orders of magnitude weaker; stages rho / modes / phi_hat / phi assembled over ranks and compared with the independent "
        "pipeline; the same solver objects are then used for a second distribution (compared the same way) and for the first one again (judged against the reference again); FFT round trip on random complex grids; equilibrium (eps=0): rho, phi zero (up to rounding of the quadrature) and one full Strang "
        "step is a fixed point.  A class is (ntheta parity, chi/electron model, which of r|z split, data kind, stage).")
ASSUMPTIONS = ["simulated MPI through all layout changes of the pipeline (self-tested)", "reference per-mode solve = dense Galerkin assembly of C14 with the QN coefficient functions",
               "tolerance 1000*eps*cond(K)*kappa*scale per stage"]
REQUIRED_EVENTS = {"stage_points_compared": 1, "roundtrip_points": 1, "equilibrium_runs": 1, "odd_ntheta_runs": 1, "aliased_mode_runs": 1, "chi1_runs": 1, "kinetic_runs": 1}
C = 1000.0
CASE_TIMEOUT = {"quick": 900, "thorough": 1800}


def gen_cases(tier, seed):
    rng = random.Random(151515 + seed)
    cases = []
    grids = [(1, 1), (2, 1), (1, 2), (2, 2), (3, 1), (1, 3), (3, 2), (2, 3)]
    n = 32 if tier == "quick" else 4000
    for k in range(n):
        nth = rng.choice([4, 5, 6, 7, 8, 9])
        model = ["chi0", "chi1", "kinetic"][k % 3]
        data = ["init", "init-aliased", "random", "random-tiny", "sidebands"][(k // 3) % 5]
        cases.append({"kind": "pipeline", "npts": [rng.randint(6, 9), nth, rng.randint(7, 8), rng.randint(6, 9)], "nprocs": list(grids[k % len(grids)]),
                      "model": model, "data": data, "seed": rng.randrange(1 << 30), "cost": 200})
    for k in range(4 if tier == "quick" else 120):
        cases.append({"kind": "equilibrium", "npts": [8, rng.choice([7, 8]), 8, 8], "nprocs": list([(1, 1), (2, 1), (2, 2), (1, 2)][k % 4]), "iota": [0.0, 0.8][k % 2],
                      "seed": rng.randrange(1 << 30), "cost": 2000})
    return cases


def run_case(case):
    import pygyro.splines as spl
    from pygyro.poisson import poisson_solver as ps
    paths.assert_repo(ps)
    if case["kind"] == "pipeline":
        return _pipeline(case, spl, ps)
    return _equilibrium(case, spl, ps)


def _pipeline(case, spl, ps):
    from mpi4py import MPI
    from vlib import simrun, qnref, driverlike
    from pygyro.initialisation.initialiser import initialise_v_parallel
    npts, nprocs, model, data = case["npts"], case["nprocs"], case["model"], case["data"]
    if not simrun.admissible(npts, nprocs) or nprocs[0] > npts[1]:
        return result(SKIP, what="process grid not admissible")
    P = nprocs[0] * nprocs[1]
    nr, nth, nz, nv = npts
    rng = random.Random(case["seed"])
    mmode = rng.randint(0, nth // 2) if data != "init-aliased" else rng.randint(nth // 2 + 1, 2 * nth)
    c = simrun.small_constants(npts, seed=case["seed"] % 1000, m=mmode, n=rng.choice([0, 1, 2]), eps=0.1)
    eta, bs, breaks = pg.make_space(spl, c.npts, c.splineDegrees, pg.std_domain(c))
    rs = np.random.RandomState(case["seed"] % (1 << 31))
    R, TH, Z, V = np.meshgrid(*eta, indexing="ij")
    FEQ4 = pg.f_eq(R, V, c)
    if data == "random":
        F = FEQ4 * (1 + 0.2 * rs.standard_normal(npts))
    elif data == "random-tiny":
        # the density-to-potential map is linear: a perturbation of size 1e-9 must not be treated as "nothing"
        F = FEQ4 * (1 + 1e-9 * rs.standard_normal(npts))
    elif data == "sidebands":
        # one strong poloidal mode with weak neighbours nine orders of magnitude below it
        m1, m2 = (mmode + 1) % nth, (mmode + 2) % nth
        F = FEQ4 * (1 + 0.1 * np.cos(mmode * TH) + 1e-9 * np.exp(-(R - c.rp) ** 2 / c.deltaR) * (np.cos(m1 * TH + Z / c.R0) + np.sin(m2 * TH)))
    else:
        F = FEQ4 * (1 + c.eps * np.exp(-(R - c.rp) ** 2 / c.deltaR) * np.cos(c.m * TH + c.n * Z / c.R0))
    RT = rs.standard_normal((nr, nth, nz)) + 1j * rs.standard_normal((nr, nth, nz))
    # second distribution for the SAME solver objects (the driver calls them once per sub-step)
    F2 = FEQ4 * (1 + 0.05 * rs.standard_normal(npts) + 0.3 * np.cos(((mmode + 1) % nth) * TH + 0.7))
    chi = 1 if model == "chi1" else 0
    adiabatic = model != "kinetic"

    def prog(rank):
        comm = MPI.COMM_WORLD
        sim = simrun.Sim(comm, c, nprocs, layout='v_parallel', save=True)
        if data in ("random", "random-tiny", "sidebands"):
            sim.scatter(sim.f, F)
        else:
            initialise_v_parallel(sim.f, c)
        st = driverlike.Stepper(sim, chi=chi, adiabatic=adiabatic)
        obs = {"f0": sim.block(sim.f)}
        lay0, mine = sim.f.currentLayout, np.array(sim.f.getAllData(), copy=True)
        st.compute_phi(observe=lambda name, g: obs.__setitem__(name, sim.block(g)))
        # FFT round trip on the phi grid (layout v_parallel_2d)
        sim.scatter(sim.phi, RT)
        st.QN.getModes(sim.phi)
        st.QN.findPotential(sim.phi)
        obs["roundtrip"] = sim.block(sim.phi)
        # history on the same objects: another distribution, then the first one again
        sim.scatter(sim.f, F2)
        st.compute_phi(observe=lambda name, g: obs.__setitem__(name + "#2", sim.block(g)))
        obs["f2"] = sim.block(sim.f)
        if sim.f.currentLayout == lay0:
            sim.f.getAllData()[:] = mine
            st.compute_phi(observe=lambda name, g: obs.__setitem__(name + "#3", sim.block(g)))
        return obs

    w = MPI.run_world(P, prog, schedule="random", seed=case["seed"], timeout=800)
    ev = dict(w.events)
    err = w.first_error()
    wit = {"case": case, "m": mmode}
    split = ("r" if nprocs[0] > 1 else "") + ("z" if nprocs[1] > 1 else "") or "none"
    base = "%s/%s/split-%s/%s" % ("odd" if nth % 2 else "even", model, split, data)
    if err is not None:
        wit["traceback"] = (w.tracebacks[err[0]] or "")[-2500:]
        return result(VIOL, cls=[base + "/exception"], events=ev, key="C15:exception:%s" % type(err[1]).__name__,
                      what="rank %d raised %r on process grid %r" % (err[0], err[1], nprocs), witness=wit)

    def asm(name, shape):
        G, cover = simrun.assemble([r[name] for r in w.results], shape)
        if not (cover == 1).all():
            raise RuntimeError("coverage")
        return G
    F0 = asm("f0", tuple(npts))
    ev.update({"stage_points_compared": 0, "roundtrip_points": 0, "odd_ntheta_runs": nth % 2, "aliased_mode_runs": int(data == "init-aliased"),
               "chi1_runs": int(model == "chi1"), "kinetic_runs": int(model == "kinetic"), "equilibrium_runs": 0})
    cls = set()
    if data in ("init", "init-aliased"):
        # the initial distribution itself (pygyro's initialiser) vs. the documented formula
        if not np.all(np.abs(F0 - F) <= 100 * rm.EPS * np.abs(F).max()):
            return result(VIOL, cls=[base], events=ev, key="C15:initial-distribution", what="initialised f differs from f_eq*(1+eps*perturbation) by %.3g" % float(np.abs(F0 - F).max()), witness=wit)
    for suffix, label in (("", "first"), ("#2", "second")):
        Fin = F0 if suffix == "" else asm("f2", tuple(npts))
        if suffix == "#2" and not np.array_equal(Fin, F2):
            return result(VIOL, cls=[base], events=ev, key="C15:f-changed-by-compute-phi", what="the distribution function handed to the second potential computation was modified", witness=wit)
        r_ = _compare_stages(Fin, suffix, label, asm, qnref, c, eta, bs, breaks, chi, adiabatic, nth, (nr, nth, nz), base, model, mmode, nprocs, ev, cls, wit)
        if r_ is not None:
            return r_
    # third computation with the first distribution again: judged against the reference like the first one (the property does
    # not ask for bit-wise reproducibility)
    if all((name + "#3") in w.results[0] for name in ("rho", "phi")):
        ev["repeat_points"] = ev.get("repeat_points", 0) + 4 * nr * nth * nz
        cls.add("%s/repeat-after-other-distribution" % base)
        r_ = _compare_stages(F0, "#3", "third (the first distribution again, after another one)", asm, qnref, c, eta, bs, breaks, chi, adiabatic, nth, (nr, nth, nz), base, model, mmode, nprocs, ev, cls, wit)
        if r_ is not None:
            if r_.get("key"):
                r_["key"] = "C15:history/" + r_["key"].split(":", 1)[1].replace("/second-use", "")
            return r_
    G = asm("roundtrip", (nr, nth, nz))
    ev["roundtrip_points"] += G.size
    cls.add("%s/fft-roundtrip" % base)
    if not np.all(np.abs(G - RT) <= C * rm.EPS * np.abs(RT).max() * np.log2(nth + 1)):
        return result(VIOL, cls=sorted(cls), events=ev, key="C15:fft-roundtrip", what="getModes followed by findPotential changed the field by %.3g" % float(np.abs(G - RT).max()), witness=wit)
    return result(HELD, cls=sorted(cls), events=ev, n_eval=ev["stage_points_compared"], sched=str(hash(w.arrival_signature())))


def _compare_stages(F0, suffix, label, asm, qnref, c, eta, bs, breaks, chi, adiabatic, nth, shape3, base, model, mmode, nprocs, ev, cls, wit):
    nr, nth, nz = shape3
    ref = qnref.pipeline(F0, c, eta, bs, breaks, chi=chi, adiabatic=adiabatic, qn_degree=7)
    if ref["cond"] > 1e11:
        return result(SKIP, what="reference problem ill conditioned (%.3g)" % ref["cond"])
    L = float(eta[3][-1] - eta[3][0])
    fmax = float(np.abs(F0).max())
    tol_rho = 200 * rm.EPS * (ref["kappa_v"] + float(np.abs(eta[3]).max()) / float(np.min(np.diff(breaks[3])))) * fmax * L
    rho_scale = float(np.abs(ref["rho"]).max()) + tol_rho
    tol_hat = tol_rho * nth + C * rm.EPS * rho_scale * nth
    phis = float(np.abs(ref["phi_hat"]).max()) + 1e-300
    amp = phis / (float(np.abs(ref["rho_hat"]).max()) + 1e-300)
    tol_phihat = C * rm.EPS * ref["cond"] * phis + amp * tol_hat * ref["cond"] ** 0
    tol_phi = tol_phihat * 2
    stages = [("rho", ref["rho"], tol_rho), ("modes", ref["rho_hat"], tol_hat), ("phi_hat", ref["phi_hat"], tol_phihat), ("phi", ref["phi"], tol_phi)]
    for name, R_, tol in stages:
        G = asm(name + suffix, (nr, nth, nz))
        e = np.abs(G - R_)
        ev["stage_points_compared"] += G.size
        cls.add("%s/%s" % (base, name))
        if not np.all(e <= tol):
            idx = np.unravel_index(int(np.nanargmax(np.where(np.isnan(e), np.inf, e))), e.shape)
            return result(VIOL, cls=sorted(cls), events=ev, key="C15:stage-%s/%s%s" % (name, model, "" if suffix == "" else "/second-use"),
                          what="stage '%s' (%s computation, %s, ntheta=%d, mode m=%d, grid %r) differs from the independent pipeline by %.3g (tol %.3g) at (r, theta/mode, z)=%r"
                          % (name, label, model, nth, mmode, nprocs, float(np.nanmax(e)), tol, tuple(int(x) for x in idx)), witness=wit)
        if name == "phi":
            im = float(np.abs(np.imag(G)).max())
            cls.add("%s/realness" % base)
            if not im <= tol_phi:
                return result(VIOL, cls=sorted(cls), events=ev, key="C15:potential-not-real", what="imaginary part of the potential of a real density is %.3g (tol %.3g)" % (im, tol_phi), witness=wit)
    return None


def _equilibrium(case, spl, ps):
    from mpi4py import MPI
    from vlib import simrun, driverlike
    from pygyro.initialisation.initialiser import initialise_v_parallel
    npts, nprocs = case["npts"], case["nprocs"]
    if not simrun.admissible(npts, nprocs):
        return result(SKIP, what="process grid not admissible")
    P = nprocs[0] * nprocs[1]
    c = simrun.small_constants(npts, iota=case["iota"], seed=case["seed"] % 1000, eps=0.0, dt=2)
    from vlib import contracts
    contracts.install()
    contracts.reset()

    def prog(rank):
        comm = MPI.COMM_WORLD
        sim = simrun.Sim(comm, c, nprocs, layout='v_parallel', save=True)
        initialise_v_parallel(sim.f, c)
        st = driverlike.Stepper(sim, chi=0)
        obs = {"f0": sim.block(sim.f)}
        st.compute_phi(observe=lambda name, g: obs.__setitem__(name, sim.block(g)))
        st.step()
        obs["f1"] = sim.block(sim.f)
        obs["phi1"] = sim.block(sim.phi)
        return obs

    w = MPI.run_world(P, prog, schedule="random", seed=case["seed"], timeout=850)
    ev = dict(w.events)
    err = w.first_error()
    wit = {"case": case}
    base = "equilibrium/grid%dx%d/iota-%s" % (nprocs[0], nprocs[1], "zero" if case["iota"] == 0 else "nonzero")
    if err is not None:
        wit["traceback"] = (w.tracebacks[err[0]] or "")[-2500:]
        return result(VIOL, cls=[base + "/exception"], events=ev, key="C15:exception:%s" % type(err[1]).__name__,
                      what="rank %d raised %r during the equilibrium step on grid %r" % (err[0], err[1], nprocs), witness=wit)
    ev["equilibrium_runs"] = 1
    ev["contract_evaluations"] = contracts.STATE["evaluations"]
    if contracts.STATE["violations"]:
        return result(VIOL, cls=[base], events=ev, key="C15:ride-along/interpolant-postcondition", what=contracts.STATE["violations"][0], witness=wit)
    for k in ("stage_points_compared", "roundtrip_points", "odd_ntheta_runs", "aliased_mode_runs", "chi1_runs", "kinetic_runs"):
        ev.setdefault(k, 0)
    shape3 = tuple(npts[:3])
    for name in ("rho", "phi"):
        G, cover = simrun.assemble([r[name] for r in w.results], shape3)
        # "zero" up to rounding of the quadrature of f - f_eq (the shipped code gives exactly 0 because both sides use one table)
        fmax_ = max(float(np.abs(r_["f0"][3]).max()) for r_ in w.results if r_["f0"][3].size)
        tol0 = 1000 * rm.EPS * fmax_ * float(c.vMax - c.vMin) * (1.0 if name == "rho" else 1e4)
        if not float(np.abs(G).max()) <= tol0:
            return result(VIOL, cls=[base], events=ev, key="C15:equilibrium-%s-not-zero" % name, what="%s of the unperturbed equilibrium is %.3g (tolerance %.3g)" % (name, float(np.abs(G).max()), tol0), witness=wit)
    F0, _ = simrun.assemble([r["f0"] for r in w.results], tuple(npts))
    F1, _ = simrun.assemble([r["f1"] for r in w.results], tuple(npts))
    PH, _ = simrun.assemble([r["phi1"] for r in w.results], shape3)
    tol = 5e4 * rm.EPS * float(np.abs(F0).max())
    e = float(np.abs(F1 - F0).max())
    if not e <= tol:
        return result(VIOL, cls=[base], events=ev, key="C15:equilibrium-not-fixed-point",
                      what="one Strang step changed the unperturbed equilibrium by %.3g (tol %.3g) on grid %r, iota=%g" % (e, tol, nprocs, case["iota"]), witness=wit)
    return result(HELD, cls=[base + "/fixed-point"], events=ev, n_eval=F0.size, extra={"change": e, "phi_after": float(np.abs(PH).max())})
