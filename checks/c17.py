"""C17 -- diagnostics and global reductions equal serial quadrature of the global field.

Oracle: serial quadrature (trapezoid weights in r and v built from the node coordinates, rectangle
in theta and z, Jacobian r) of the assembled GLOBAL random field; min/max of the global field or of a
fixed-index slice; slot bookkeeping of DiagnosticCollector.  Reductions are combined in arrival order
under several scheduler seeds.  Replicated layouts: the sum over ONE replica set is demanded, and
replica sets must agree with each other.
"""
import random
from math import pi

import numpy as np

from vlib import paths
paths.setup()
from vlib.runner import result, HELD, VIOL, SKIP, INCO  # noqa: E402
from vlib import refmath as rm  # noqa: E402
from vlib import physgen as pg  # noqa: E402

ID = "C17"
LEVEL = "exploration"
NEEDS_SIMMPI = True
RULE = ("seeded set-ups: grids [nr 5-8, ntheta 5-8, nz 7-9, nv 6-9] on process grids (1,1),(2,1),(1,2),(2,2),(3,1),(1,3),"
        "(3,2),(2,3); random real f and random complex phi (plus the field equal to one); l2/l1/nParticles/KineticEnergy in "
        "all three layouts of f, in ALL 24 orderings of a 4-D grid with non-uniform r and v nodes, and in the distributed (v_parallel_2d, mode_solve) and replicated (v_parallel_1d, poloidal) "
        "layouts of phi; getMin/getMax for the whole grid and for 1 or 2 fixed indices at every drawing rank; "
        "DiagnosticCollector.collect at several times with save intervals 1-4 followed by reduce() under seeded arrival "
        "orders.  A class is (quantity, layout, which of r|z|v split, field kind) / (min|max, fixed axes, owner pattern) / "
        "(collector, save interval).")
ASSUMPTIONS = ["simulated MPI; reductions combined in arrival order (self-tested)", "replicated layouts: sum over one replica set (ranks of the layout's own communicators)",
               "tolerance 500*eps*sum|terms|"]
REQUIRED_EVENTS = {"norms_compared": 1, "minmax_compared": 1, "collector_rows_compared": 1, "replicated_layout_checks": 1, "unit_field_checks": 1, "nonstandard_layouts": 1}
C = 500.0
CASE_TIMEOUT = {"quick": 600, "thorough": 1500}


def gen_cases(tier, seed):
    rng = random.Random(171717 + seed)
    cases = []
    grids = [(1, 1), (2, 1), (1, 2), (2, 2), (3, 1), (1, 3), (3, 2), (2, 3)]
    for k in range(24 if tier == "quick" else 8000):
        cases.append({"kind": "diag", "npts": [rng.randint(5, 8), rng.randint(5, 8), rng.randint(7, 9), rng.randint(6, 9)], "nprocs": list(grids[k % len(grids)]),
                      "saveStep": rng.randint(1, 4), "dt": rng.choice([1, 2, 3]), "sched": rng.randrange(1 << 30), "seed": rng.randrange(1 << 30), "cost": 100})
    # "in every layout": all 24 orderings of a 4-D grid (not only the three shipped ones)
    for k in range(4 if tier == "quick" else 200):
        cases.append({"kind": "anylayout", "npts": [rng.randint(4, 7) for _ in range(4)], "nprocs": list([(1, 1), (2, 1), (2, 2), (1, 3), (3, 2), (2, 3)][k % 6]),
                      "seed": rng.randrange(1 << 30), "intgrid": bool((k // 2) % 2), "cost": 150})
    return cases


def weights(eta):
    def trap(x):
        d = np.diff(x)
        return np.concatenate([[d[0] * 0.5], (d[1:] + d[:-1]) * 0.5, [d[-1] * 0.5]])
    wr = trap(eta[0]) * eta[0]
    dq = eta[1][2] - eta[1][1]
    dz = eta[2][2] - eta[2][1]
    wv = trap(eta[3]) if len(eta) > 3 else None
    return wr, dq, dz, wv


def serial_values(F, PHI, eta):
    wr, dq, dz, wv = weights(eta)
    W4 = wr[:, None, None, None] * wv[None, None, None, :] * dq * dz
    W3 = wr[:, None, None] * dq * dz
    v = eta[3]
    return {"l2f": float(np.sum(np.abs(F) ** 2 * W4)), "l1": float(np.sum(np.abs(np.real(F)) * W4)), "N": float(np.sum(np.real(F) * W4)),
            "KE": float(0.5 * np.sum(np.real(F) * (v ** 2)[None, None, None, :] * W4)), "l2phi": float(np.sum(np.abs(PHI) ** 2 * W3)),
            "abs": {"l2f": float(np.sum(np.abs(F) ** 2 * W4)), "l1": float(np.sum(np.abs(F) * W4)), "N": float(np.sum(np.abs(F) * W4)),
                    "KE": float(0.5 * np.sum(np.abs(F) * (v ** 2)[None, None, None, :] * W4)), "l2phi": float(np.sum(np.abs(PHI) ** 2 * W3))}}


def _anylayout(case):
    import itertools
    from mpi4py import MPI
    from pygyro.model.layout import getLayoutHandler
    from pygyro.model.grid import Grid
    from pygyro.diagnostics import norms, energy
    from vlib import layout_oracle as lo
    npts, nprocs = case["npts"], case["nprocs"]
    if max(nprocs) > min(npts):
        return result(SKIP, what="process grid larger than the smallest extent")
    P = nprocs[0] * nprocs[1]
    rs = np.random.RandomState(case["seed"] % (1 << 31))
    from math import pi as _pi
    eta = [np.sort(rs.uniform(0.5, 5.0, npts[0])), np.linspace(0, 2 * _pi, npts[1], endpoint=False), np.linspace(0, 7.0, npts[2], endpoint=False), np.sort(rs.uniform(-4, 4, npts[3]))]
    if case.get("intgrid"):
        # the same kind of grid with integer coordinates stored in integer-typed arrays (np.arange): quadrature weights such as dv/2
        # must not inherit the integer type
        eta[0] = np.arange(1, npts[0] + 1)
        eta[3] = np.arange(-(npts[3] // 2), npts[3] - (npts[3] // 2)).astype([np.int64, np.int32][case["seed"] % 2])
    F = rs.standard_normal(npts)
    perms = [list(p) for p in itertools.permutations(range(4))]
    layouts = {"L" + "".join(map(str, p)): p for p in perms}

    def prog(rank):
        comm = MPI.COMM_WORLD
        h = getLayoutHandler(comm, dict(layouts), list(nprocs), eta)
        out = {}
        for name in layouts:
            g = Grid(eta, [None] * 4, h, name, comm)
            L = h.getLayout(name)
            g.getAllData()[:] = lo.expected_block(F, L)
            out[name] = {"l2f": norms.l2(eta, L).l2NormSquared(g), "l1": norms.l1(eta, L).l1Norm(g), "N": norms.nParticles(eta, L).getN(g), "KE": energy.KineticEnergy(eta, L).getKE(g)}
        return out

    w = MPI.run_world(P, prog, timeout=500)
    ev = dict(w.events)
    ev.update({"norms_compared": 0, "minmax_compared": 0, "collector_rows_compared": 0, "replicated_layout_checks": 0, "unit_field_checks": 0, "nonstandard_layouts": 0})
    err = w.first_error()
    wit = {"case": case}
    if err is not None:
        wit["traceback"] = (w.tracebacks[err[0]] or "")[-2500:]
        return result(VIOL, cls=["anylayout/exception"], events=ev, key="C17:anylayout-exception:%s" % type(err[1]).__name__, what="rank %d raised %r" % (err[0], err[1]), witness=wit)
    ser = serial_values(F, np.zeros(npts[:3], dtype=complex), eta)
    cls = set()
    for name, p in layouts.items():
        for q in ("l2f", "l1", "N", "KE"):
            tot = sum(r[name][q] for r in w.results)
            ev["norms_compared"] += 1
            ev["nonstandard_layouts"] += 1
            cls.add("anylayout/%s/%s" % (q, "r-before-v" if p.index(0) < p.index(3) else "v-before-r"))
            if not abs(tot - ser[q]) <= C * rm.EPS * ser["abs"][q]:
                return result(VIOL, cls=sorted(cls), events=ev, key="C17:%s/nonstandard-layout" % q,
                              what="sum over ranks of %s in layout ordering %r (grid %r) is %r, serial quadrature gives %r" % (q, p, nprocs, tot, ser[q]), witness=wit)
    return result(HELD, cls=sorted(cls), events=ev, n_eval=ev["norms_compared"])


def run_case(case):
    import pygyro.splines as spl
    from mpi4py import MPI
    from vlib import simrun
    from pygyro.diagnostics import norms, energy
    from pygyro.diagnostics.diagnostic_collector import DiagnosticCollector
    paths.assert_repo(norms)
    if case["kind"] == "anylayout":
        return _anylayout(case)
    npts, nprocs = case["npts"], case["nprocs"]
    if not simrun.admissible(npts, nprocs) or nprocs[0] > npts[1]:
        return result(SKIP, what="process grid not admissible")
    P = nprocs[0] * nprocs[1]
    c = simrun.small_constants(npts, seed=case["seed"] % 1000, dt=case["dt"], offsets=True)
    eta, bs, breaks = pg.make_space(spl, c.npts, c.splineDegrees, pg.std_domain(c))
    rs = np.random.RandomState(case["seed"] % (1 << 31))
    F = rs.standard_normal(npts)
    PHI = rs.standard_normal(npts[:3]) + 1j * rs.standard_normal(npts[:3])
    ONE4 = np.ones(npts)
    saveStep, dt = case["saveStep"], case["dt"]
    times = [dt * k for k in sorted(set(rs.randint(0, 3 * saveStep + 2, 4).tolist()))]
    fix_choices = []
    rng = random.Random(case["seed"])
    for _ in range(4):
        ax = rng.randrange(4)
        fix_choices.append(([ax], [rng.randrange(npts[ax])]))
    ax2 = rng.sample(range(4), 2)
    fix_choices.append((ax2, [rng.randrange(npts[a]) for a in ax2]))

    def prog(rank):
        comm = MPI.COMM_WORLD
        if case["seed"] % 3 == 1:
            comm = comm.Split(0, -rank)          # the same processes numbered in the opposite order to the world communicator
        sim = simrun.Sim(comm, c, nprocs, layout='v_parallel', save=False)
        out = {"coords": list(sim.remapper.mpiCoords), "norms": {}, "minmax": [], "collector": None, "comm_rank": comm.Get_rank()}
        f, phi = sim.f, sim.phi
        # --- norms of f in its three layouts, random field and the field equal to one
        for fld_name, FLD in (("random", F), ("one", ONE4)):
            f.setLayout('v_parallel') if f.currentLayout != 'v_parallel' else None
            sim.scatter(f, FLD)
            for lay in ('v_parallel', 'flux_surface', 'poloidal', 'v_parallel'):
                if f.currentLayout != lay:
                    f.setLayout(lay)
                L = f.getLayout(lay)
                out["norms"][(fld_name, "f", lay)] = {"l2f": norms.l2(eta, L).l2NormSquared(f), "l1": norms.l1(eta, L).l1Norm(f),
                                                     "N": norms.nParticles(eta, L).getN(f), "KE": energy.KineticEnergy(eta, L).getKE(f)}
        sim.scatter(f, F)
        # --- l2 of phi in distributed and replicated layouts
        phi.setLayout('v_parallel_2d')
        sim.scatter(phi, PHI)
        for lay in ('v_parallel_2d', 'mode_solve', 'v_parallel_1d', 'poloidal', 'v_parallel_2d'):
            if phi.currentLayout != lay:
                phi.setLayout(lay)
            out["norms"][("random", "phi", lay)] = {"l2phi": norms.l2(eta[:3], phi.getLayout(lay)).l2NormSquared(phi)}
        # --- min / max at every drawing rank, for a sign-changing, an all-negative and an all-positive field
        for shift in (0.0, -10.0, 10.0):
            sim.scatter(f, F + shift)
            for dr in range(comm.Get_size()):
                out["minmax"].append(("all", dr, None, None, f.getMin(dr), f.getMax(dr), shift))
                for axes, fixes in fix_choices:
                    a = axes if len(axes) > 1 else axes[0]
                    v = fixes if len(fixes) > 1 else fixes[0]
                    out["minmax"].append(("fix", dr, axes, fixes, f.getMin(dr, a, v), f.getMax(dr, a, v), shift))
        sim.scatter(f, F)
        out["local_minmax"] = (f.getMin(), f.getMax())
        # --- collector
        diag = DiagnosticCollector(comm, saveStep, dt, f, phi)
        before = diag.diagnostics.copy()
        cols = []
        for t in times:
            diag.collect(f, phi, t)
            cols.append(diag.diagnostics.copy())
        diag.reduce()
        out["collector"] = {"before": before, "cols": cols, "rows": [diag.diagnostics[0].copy(), np.array(diag.l2PhiResult), np.array(diag.l2GridResult), np.array(diag.l1Result),
                                                                      np.array(diag.nPartResult), np.array(diag.min_val), np.array(diag.max_val), np.array(diag.KE_val)]}
        return out

    w = MPI.run_world(P, prog, schedule="random", seed=case["sched"], timeout=550)
    ev = dict(w.events)
    err = w.first_error()
    wit = {"case": case}
    split = ("r" if nprocs[0] > 1 else "") + ("z" if nprocs[1] > 1 else "") or "none"
    base = "grid%dx%d" % tuple(nprocs)
    if err is not None:
        wit["traceback"] = (w.tracebacks[err[0]] or "")[-2500:]
        return result(VIOL, cls=[base + "/exception"], events=ev, key="C17:exception:%s" % type(err[1]).__name__,
                      what="rank %d raised %r on process grid %r" % (err[0], err[1], nprocs), witness=wit)
    res = sorted(w.results, key=lambda r_: r_["comm_rank"])          # indexed by the rank in the communicator the grids live on
    ev.update({"norms_compared": 0, "minmax_compared": 0, "collector_rows_compared": 0, "replicated_layout_checks": 0, "unit_field_checks": 0})
    cls = set()
    ser = serial_values(F, PHI, eta)
    ser_one = serial_values(ONE4, PHI, eta)
    vol = 0.5 * (eta[0][-1] ** 2 - eta[0][0] ** 2) * 2 * pi * (c.zMax - c.zMin) * (eta[3][-1] - eta[3][0])
    if not abs(ser_one["N"] - vol) <= C * rm.EPS * vol:
        return result(INCO, what="harness self-check: serial quadrature of 1 (%r) != analytic volume factor (%r)" % (ser_one["N"], vol))
    # --- norms
    for (fld, which, lay), _vals in res[0]["norms"].items():
        if which == "f":
            groups = {None: list(range(P))}
        elif lay in ("v_parallel_2d", "mode_solve"):
            groups = {None: list(range(P))}
        elif lay == "v_parallel_1d":      # distributed over direction 0, replicated along direction 1
            groups = {k: [r for r in range(P) if res[r]["coords"][1] == k] for k in range(nprocs[1])}
        else:                             # phi 'poloidal': distributed over direction 1, replicated along 0
            groups = {k: [r for r in range(P) if res[r]["coords"][0] == k] for k in range(nprocs[0])}
        target = ser_one if fld == "one" else ser
        for q in _vals:
            sums = []
            for g, ranks in groups.items():
                sums.append(sum(res[r]["norms"][(fld, which, lay)][q] for r in ranks))
            exact = target[q]
            tol = C * rm.EPS * target["abs"][q] + 1e-300
            ev["norms_compared"] += len(sums)
            if len(groups) > 1:
                ev["replicated_layout_checks"] += 1
            if fld == "one":
                ev["unit_field_checks"] += 1
            cls.add("%s/%s/%s/%s/%s" % (base, q, lay, "replicated" if len(groups) > 1 or (which == "phi" and lay in ("v_parallel_1d", "poloidal")) else "distributed", fld))
            for sg in sums:
                if not abs(sg - exact) <= tol:
                    return result(VIOL, cls=sorted(cls), events=ev, key="C17:%s/%s%s" % (q, lay, "/split-" + split),
                                  what="sum over ranks of %s in layout %s (%s field, grid %r) is %r, serial quadrature of the global field gives %r (tol %.3g)"
                                  % (q, lay, fld, nprocs, sg, exact, tol), witness=wit)
            if fld == "one" and q == "N" and not abs(sums[0] - vol) <= C * rm.EPS * vol:
                return result(VIOL, cls=sorted(cls), events=ev, key="C17:volume-factor", what="particle number of f=1 is %r, analytic volume factor %r" % (sums[0], vol), witness=wit)
    # --- min / max
    n_entries = len(res[0]["minmax"])
    for k in range(n_entries):
        kind, dr, axes, fixes, _mn, _mx, shift = res[0]["minmax"][k]
        if kind == "all":
            sub = F + shift
        else:
            idx = [slice(None)] * 4
            for a, v in zip(axes, fixes):
                idx[a] = v
            sub = (F + shift)[tuple(idx)]
        for r in range(P):
            _k, _dr, _a, _f, mn, mx, _s = res[r]["minmax"][k]
            ev["minmax_compared"] += 1
            cls.add("%s/minmax/%s/%s" % (base, "whole" if kind == "all" else "fix%d" % len(axes), "mixed-sign" if shift == 0 else ("all-negative" if shift < 0 else "all-positive")))
            if r == dr:
                if mn != sub.min() or mx != sub.max():
                    return result(VIOL, cls=sorted(cls), events=ev, key="C17:minmax/%s" % ("whole" if kind == "all" else "fixed-%d-axes" % len(axes)),
                                  what="getMin/getMax(drawingRank=%d, axis=%r, fixValue=%r) returned (%r,%r), global field has (%r,%r)" % (dr, axes, fixes, mn, mx, sub.min(), sub.max()), witness=wit)
            elif mn is not None or mx is not None:
                return result(VIOL, cls=sorted(cls), events=ev, key="C17:minmax-non-root-value", what="rank %d (not the drawing rank %d) received %r/%r" % (r, dr, mn, mx), witness=wit)
    # --- collector: slot bookkeeping and reduced rows on rank 0
    for r in range(P):
        col = res[r]["collector"]
        prev = col["before"]
        for t, now in zip(times, col["cols"]):
            slot = (t // dt) % saveStep
            changed = np.nonzero(np.any(now != prev, axis=0))[0].tolist()
            if any(cc != slot for cc in changed) or now[0, slot] != t:
                return result(VIOL, cls=sorted(cls), events=ev, key="C17:collector-slot", what="collect(t=%r) with dt=%r, saveStep=%d wrote column(s) %r, expected only %d" % (t, dt, saveStep, changed, slot), witness=wit)
            prev = now
    rows = res[0]["collector"]["rows"]
    last_t_of_slot = {}
    for t in times:
        last_t_of_slot[(t // dt) % saveStep] = t
    for slot, t in last_t_of_slot.items():
        exp = [t, np.sqrt(ser["l2phi"]), np.sqrt(ser["l2f"]), ser["l1"], ser["N"], F.min(), F.max(), ser["KE"]]
        scl = [abs(t) + 1, np.sqrt(ser["abs"]["l2phi"]), np.sqrt(ser["abs"]["l2f"]), ser["abs"]["l1"], ser["abs"]["N"], 0.0, 0.0, ser["abs"]["KE"]]
        for i in range(8):
            ev["collector_rows_compared"] += 1
            cls.add("%s/collector/saveStep%d/row%d" % (base, saveStep, i))
            if not abs(rows[i][slot] - exp[i]) <= C * rm.EPS * scl[i]:
                return result(VIOL, cls=sorted(cls), events=ev, key="C17:collector-row%d" % i,
                              what="after reduce() row %d, slot %d on rank 0 is %r, serial value %r (grid %r)" % (i, slot, rows[i][slot], exp[i], nprocs), witness=wit)
    return result(HELD, cls=sorted(cls), events=ev, n_eval=ev["norms_compared"] + ev["minmax_compared"] + ev["collector_rows_compared"], sched=str(hash(w.arrival_signature())))
