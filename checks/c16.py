"""C16 -- density is the exact velocity integral of the interpolated distribution.

Oracle: for every (r,theta,z) the Gauss-Legendre integral of the reference v-interpolant (dense
collocation solve + Cox-de Boor basis) of f(r,theta,z,.), minus the same for the equilibrium at the
point's own GLOBAL radius; real DensityFinder on 1-6 simulated ranks, real and complex rho storage.
"""
import random

import numpy as np

from vlib import paths
paths.setup()
from vlib.runner import result, HELD, VIOL, SKIP, INCO  # noqa: E402
from vlib import refmath as rm  # noqa: E402
from vlib import physgen as pg  # noqa: E402

ID = "C16"
LEVEL = "exploration"
NEEDS_SIMMPI = True
RULE = ("seeded set-ups: n_v 5-40, v-spline degree 1-5 (3 = stock uniform-cubic), small (r,theta,z) grids, random "
        "distributions (also: profiles in the spline space, the equilibrium itself, linear combinations), process grids "
        "(1,1),(2,1),(1,2),(2,2),(3,1),(3,2) so that some rank owns a block not starting at radial index 0, rho grids of "
        "dtype float and complex, two DensityFinder objects built on the same spline-space object (getRho through the first, getPerturbedRho through the second); both compared on every (r,theta,z) with the exact integral of the "
        "interpolant.  A class is (v-space path/degree, which of r|z split, rho dtype, operator, data kind).")
ASSUMPTIONS = ["simulated MPI (self-tested)", "reference quadrature functional = Gauss-Legendre of the reference basis contracted with the inverse collocation matrix",
               "tolerance 200*eps*(kappa+max|v|/min dv)*|f|*(vMax-vMin)"]
REQUIRED_EVENTS = {"points_compared": 1, "r_split_runs": 1, "complex_rho_runs": 1, "float_rho_runs": 1, "equilibrium_checks": 1}
C = 200.0


def gen_cases(tier, seed):
    rng = random.Random(161616 + seed)
    cases = []
    grids = [(1, 1), (2, 1), (1, 2), (2, 2), (3, 1), (3, 2)]
    for k in range(48 if tier == "quick" else 20000):
        deg = rng.choice([1, 2, 3, 3, 3, 4, 5])
        nv = rng.randint(max(5, deg + 2), 40)
        cases.append({"kind": "rho", "deg": deg, "npts": [rng.choice([4, 5, 6]), rng.choice([4, 5]), rng.choice([4, 5, 6]), nv], "nprocs": list(grids[k % len(grids)]),
                      "complex": bool(k % 2), "seed": rng.randrange(1 << 30), "cost": nv * 10})
    return cases


def run_case(case):
    import pygyro.splines as spl
    from pygyro.poisson import poisson_solver as ps
    from mpi4py import MPI
    from vlib import simrun
    from pygyro.model.grid import Grid
    paths.assert_repo(ps)
    npts, nprocs, deg = case["npts"], case["nprocs"], case["deg"]
    if not simrun.admissible(npts, nprocs):
        return result(SKIP, what="process grid not admissible")
    P = nprocs[0] * nprocs[1]
    c = simrun.small_constants(npts, degrees=(3, 3, 3, deg), seed=case["seed"] % 1000, offsets=True)
    eta, bs, breaks = pg.make_space(spl, c.npts, c.splineDegrees, pg.std_domain(c))
    rs = np.random.RandomState(case["seed"] % (1 << 31))
    nr, nth, nz, nv = npts
    FEQ = pg.f_eq(eta[0][:, None], eta[3][None, :], c)                       # (r, v)
    vref = pg.PeriodicSplineRef(bs[3], eta[3])
    if vref.kappa > 1e8:
        return result(SKIP, what="ill conditioned v space")
    # a profile in the spline space, sampled at the nodes
    coef = rs.standard_normal(vref.n)
    inspace = np.array([rm.spline_eval(vref.T, coef, vref.p, x) for x in eta[3]])
    fields = {"random": rs.standard_normal(npts), "in-space": np.tile(inspace, (nr, nth, nz, 1)) * rs.uniform(0.5, 1.5, (nr, nth, nz, 1)),
              "equilibrium": np.tile(FEQ[:, None, None, :], (1, nth, nz, 1))}
    fields["combo"] = 0.7 * fields["random"] - 1.3 * fields["in-space"]
    use_complex = case["complex"]

    def prog(rank):
        comm = MPI.COMM_WORLD
        sim = simrun.Sim(comm, c, nprocs, layout='v_parallel', save=False)
        rho = sim.rho if use_complex else Grid(sim.eta[:3], sim.bs[:3], sim.remapperRho, 'v_parallel_2d', comm, dtype=float)
        # two operators on the SAME spline space object (a history: the second construction must not be
        # affected by the first, nor corrupt it)
        dens_first = ps.DensityFinder(6, sim.bs[3], sim.eta, c)
        dens = ps.DensityFinder(6, sim.bs[3], sim.eta, c)
        out = {}
        for name, F in fields.items():
            sim.scatter(sim.f, F)
            rho.getAllData()[:] = complex(np.nan, np.nan) if use_complex else np.nan   # stale junk in BOTH parts of a complex grid
            dens_first.getRho(sim.f, rho)
            a = sim.block(rho)
            rho.getAllData()[:] = complex(np.nan, np.nan) if use_complex else np.nan   # stale junk in BOTH parts of a complex grid
            dens.getPerturbedRho(sim.f, rho)
            b = sim.block(rho)
            out[name] = (a, b)
        return out

    w = MPI.run_world(P, prog, schedule="random", seed=case["seed"], timeout=500)
    ev = dict(w.events)
    err = w.first_error()
    wit = {"case": case}
    split = ("r" if nprocs[0] > 1 else "") + ("z" if nprocs[1] > 1 else "") or "none"
    path = "fast" if bs[3].cubic_uniform else "general-p%d" % deg
    base = "%s/split-%s/%s" % (path, split, "complex" if use_complex else "float")
    if err is not None:
        wit["traceback"] = (w.tracebacks[err[0]] or "")[-2500:]
        return result(VIOL, cls=[base + "/exception"], events=ev, key="C16:exception:%s" % type(err[1]).__name__,
                      what="rank %d raised %r on process grid %r" % (err[0], err[1], nprocs), witness=wit)
    gx, gw = rm.gauss_legendre(breaks[3], deg // 2 + 2)
    wref = gw @ vref.basis_matrix(gx)                                   # exact integral functional on nodal values
    L = float(eta[3][-1] - eta[3][0])
    cancel = float(np.abs(eta[3]).max()) / float(np.min(np.diff(breaks[3])))
    ev.update({"points_compared": 0, "r_split_runs": 1 if nprocs[0] > 1 else 0, "complex_rho_runs": int(use_complex), "float_rho_runs": int(not use_complex),
               "equilibrium_checks": 0})
    cls = set()
    for name, F in fields.items():
        for which, opname in ((0, "getRho"), (1, "getPerturbedRho")):
            G, cover = simrun.assemble([r[name][which] for r in w.results], (nr, nth, nz))
            if not (cover == 1).all():
                return result(VIOL, cls=[base], events=ev, key="C16:coverage", what="rho blocks do not tile the grid", witness=wit)
            data = F if which == 0 else F - FEQ[:, None, None, :]
            ref = np.tensordot(data, wref, axes=([3], [0]))
            scale = float(np.abs(F).max()) + float(np.abs(FEQ).max())
            tol = C * rm.EPS * (vref.kappa + cancel) * scale * L
            ev["points_compared"] += ref.size
            cls.add("%s/%s/%s" % (base, opname, name))
            if use_complex and float(np.abs(np.imag(G)).max()) != 0.0:
                return result(VIOL, cls=sorted(cls), events=ev, key="C16:imaginary-part", what="%s of a real distribution has imaginary part %.3g" % (opname, float(np.abs(np.imag(G)).max())), witness=wit)
            e = np.abs(np.real(G) - ref)
            if not np.all(e <= tol):
                idx = np.unravel_index(int(np.nanargmax(np.where(np.isnan(e), np.inf, e))), e.shape)
                key = "C16:%s/%s" % (opname, "r-split" if nprocs[0] > 1 else "serial-r")
                return result(VIOL, cls=sorted(cls), events=ev, key=key,
                              what="%s(%s data) on process grid %r: differs from the exact integral of the v-interpolant by %.3g (tol %.3g) at (r,theta,z)=%r"
                              % (opname, name, nprocs, float(np.nanmax(e)), tol, tuple(int(x) for x in idx)), witness=wit)
            if name == "equilibrium" and which == 1:
                ev["equilibrium_checks"] += 1
                if not float(np.abs(G).max()) <= tol:
                    return result(VIOL, cls=sorted(cls), events=ev, key="C16:equilibrium-not-zero", what="perturbed density of the equilibrium is %.3g" % float(np.abs(G).max()), witness=wit)
    return result(HELD, cls=sorted(cls), events=ev, n_eval=ev["points_compared"], sched=str(hash(w.arrival_signature())))
