"""C02 -- block decomposition is an exact balanced partition; accessors agree with it.

(a) exhaustive (n,p) box through the real Layout class for every rank coordinate;
(b) random multi-dimensional layouts (orderings, process grids, every rank coordinate);
(c) real Grid objects on simulated ranks: every local-to-global accessor is compared with the
    value identity of a unique-id field (the cell found at a local index must be the global cell
    the accessor names) and with the coordinate arrays; advertised buffer size vs. block sizes.
"""
import itertools
import random

import numpy as np

from vlib import paths
paths.setup()
from vlib.runner import result, HELD, VIOL, SKIP, INCO  # noqa: E402
from vlib import layout_oracle as lo  # noqa: E402

ID = "C02"
LEVEL = "exploration"
NEEDS_SIMMPI = True
EXHAUSTIVE = {"quick": True, "thorough": True}
RULE = ("(a) exhaustive: every extent n<=N and process count p<=n (quick N=96, thorough N=400), every rank coordinate, "
        "through the real Layout class: tiling in rank order without gap/overlap, block lengths differ by <=1, "
        "starts/ends/shape/size/max_block_shape/fullShape agree; (b) seeded random 2-4-D layouts with 1-3 distributed "
        "directions and every rank coordinate; (c) real Grid objects on 1-12 simulated ranks in every layout: getCoords, "
        "getEta, getCoordVals, getGlobalIdxVals, getGlobalIndices checked against the unique-id field and coordinate "
        "arrays, bufferSize >= every block; (d) LayoutSwappers joining small layout groups (one or two orderings each, less- or "
        "more-distributed group listed first, uneven extents) moved with arrays of exactly the advertised bufferSize (moves judged by the "
        "C03 machinery).  A class is (n mod p = 0|!=0, p=1|p=n|other) for (a), (ndims, #distributed, "
        "even|uneven) for (b) and (accessor, grid pattern, even|uneven) for (c).")
ASSUMPTIONS = ["simulated MPI layer for the Grid part (self-tested)", "exhaustive only inside the stated (n,p) box",
               "numpy bounds checking makes writes beyond an exact-size buffer impossible; insufficiency shows as shape errors/wrong data (C01/C03 run with exact-size buffers)"]
REQUIRED_EVENTS = {"layouts_checked": 1, "accessor_getEta": 1, "accessor_getCoords": 1, "accessor_getGlobalIndices": 1, "swapper_buffer_moves_ok": 1}


def _check_dim(L, i, n, p, k):
    """partition of layout position i (extent n over p ranks), this rank's coordinate k"""
    st = np.asarray(L.mpi_starts(i))
    ln = np.asarray(L.mpi_lengths(i))
    if len(st) != p or len(ln) != p:
        return "mpi_starts/mpi_lengths have %d/%d entries for %d processes" % (len(st), len(ln), p)
    if st[0] != 0:
        return "first block starts at %d" % st[0]
    if (ln < 0).any():
        return "negative block length %r" % (ln,)
    for q in range(p - 1):
        if st[q] + ln[q] != st[q + 1]:
            return "gap/overlap between rank %d (start %d, length %d) and rank %d (start %d)" % (q, st[q], ln[q], q + 1, st[q + 1])
    if st[-1] + ln[-1] != n:
        return "last block ends at %d, extent is %d" % (st[-1] + ln[-1], n)
    if ln.max() - ln.min() > 1:
        return "block lengths differ by more than one: %r" % (ln,)
    if p <= n and ln.min() < 1:
        return "empty block although p<=n: %r" % (ln,)
    if L.starts[i] != st[k] or L.ends[i] != st[k] + ln[k]:
        return "rank %d: starts/ends (%d,%d) disagree with mpi_starts/mpi_lengths (%d,+%d)" % (k, L.starts[i], L.ends[i], st[k], ln[k])
    if L.shape[i] != ln[k] or L.ends[i] - L.starts[i] != L.shape[i]:
        return "rank %d: shape %d disagrees with owned range [%d,%d)" % (k, L.shape[i], L.starts[i], L.ends[i])
    if L.max_block_shape[i] != ln.max():
        return "max_block_shape %d but largest block is %d" % (L.max_block_shape[i], ln.max())
    return None


def gen_cases(tier, seed):
    cases = []
    N = 96 if tier == "quick" else 400
    # split n-range into chunks of roughly equal work (~n^2/2 layouts per n)
    chunks = 32 if tier == "quick" else 160
    total = sum(n * (n + 1) // 2 for n in range(1, N + 1))
    acc, lo_n = 0, 1
    for n in range(1, N + 1):
        acc += n * (n + 1) // 2
        if acc >= total / chunks or n == N:
            cases.append({"kind": "box", "n_lo": lo_n, "n_hi": n, "cost": acc / 1000.0})
            lo_n, acc = n + 1, 0
    for k in range(40 if tier == "quick" else 600):
        cases.append({"kind": "multi", "seed": seed * 104729 + k, "n": 40, "cost": 3})
    for k in range(60 if tier == "quick" else 800):
        cases.append({"kind": "grid", "seed": seed * 15485863 + k, "Pmax": 6 if tier == "quick" else 12, "cost": 10})
    for k in range(150 if tier == "quick" else 4000):
        cases.append({"kind": "swapbuf", "seed": seed * 32452843 + k, "cost": 8})
    return cases


def run_case(case):
    from pygyro.model import layout as lay
    paths.assert_repo(lay)
    if case["kind"] == "box":
        return _box(case, lay)
    if case["kind"] == "multi":
        return _multi(case, lay)
    if case["kind"] == "grid":
        return _grid(case, lay)
    if case["kind"] == "swapbuf":
        return _swapbuf(case, lay)
    return result(INCO, what="unknown kind")


def _swapbuf(case, lay):
    """The advertised buffer size of a LayoutSwapper that joins SMALL layout groups (one or two orderings each, listed in
    any order, so that no other group's block hides an undersized gather/scatter buffer): arrays of exactly that size
    must carry every move (the moves themselves are judged by the C03 machinery: exact-size guarded arrays, unique ids)."""
    import itertools
    from checks import c03
    rng = random.Random(case["seed"])
    nd = 3
    perms = [list(q) for q in itertools.permutations(range(nd))]
    rng.shuffle(perms)
    p0, p1 = rng.choice([(2, 2), (3, 2), (2, 3), (2, 1), (1, 2), (3, 1), (1, 3), (4, 2), (2, 4), (3, 3)])
    g2 = {"two%d" % i: perms.pop() for i in range(rng.choice([1, 1, 2]))}
    which = rng.choice([0, 1])
    g1 = {"one%d" % i: perms.pop() for i in range(rng.choice([1, 1, 2]))}
    groups, procs = [g2, g1], [[p0, p1], (p0, p1)[which]]
    if rng.random() < 0.6:
        groups, procs = groups[::-1], procs[::-1]
    req = [1] * nd
    for g, pr in zip(groups, procs):
        for o in g.values():
            for i, n in enumerate([pr] if isinstance(pr, int) else pr):
                req[o[i]] = max(req[o[i]], n)
    shape = [int(rng.choice([r + 1, 2 * r + 1, 2 * r - 1 if r > 1 else 3, r + rng.randint(0, 6)])) for r in req]
    cfg = {"template": "random", "perturbed": True, "p": [p0, p1], "groups": groups, "procs": procs, "start": next(iter(groups[0])), "shape": shape,
           "dtype": rng.choice(["float", "complex"])}
    r = c03.run_case({"kind": "cfg", "cfg": cfg, "must_accept": False, "sched_seed": case["seed"] % 1000, "walk": 12})
    ev = dict(r.get("events") or {})
    ev["swapper_buffer_configs"] = 1
    cls = ["swapper-buffer/%s-first/%dx%d" % ("less-distributed" if isinstance(procs[0], int) else "more-distributed", p0, p1)]
    if r["status"] == VIOL:
        if r.get("key") == c03.KEY_SAME_NDIST:
            return result(SKIP, cls=cls, events=ev, what="grouping belongs to the recorded C03 finding (not a buffer-size question)")
        return result(VIOL, cls=cls, events=ev, key="C02:swapper-buffer/%s" % str(r.get("key", "")).split(":", 1)[-1],
                      what="LayoutSwapper with small groups, arrays of exactly the advertised bufferSize: %s" % r.get("what"), witness={"case": case, "cfg": cfg, "c03": r.get("witness")})
    if r["status"] != HELD or any(c.startswith("refused") for c in r.get("cls", [])):
        return result(SKIP, cls=cls, events=ev, what="grouping refused by the constructor or skipped")
    ev["swapper_buffer_moves_ok"] = int(ev.get("hops_compared", 0))
    return result(HELD, cls=cls, events=ev, n_eval=max(1, ev["swapper_buffer_moves_ok"]))


def _box(case, lay):
    n_eval = 0
    classes = set()
    for n in range(case["n_lo"], case["n_hi"] + 1):
        eta = [np.arange(n, dtype=float)]
        for p in range(1, n + 1):
            for k in range(p):
                L = lay.Layout("x", [p], [0], eta, [k])
                n_eval += 1
                msg = _check_dim(L, 0, n, p, k)
                if msg is None:
                    if L.size != L.shape[0] or tuple(L.fullShape) != (n,) or L.ndims != 1:
                        msg = "size/fullShape/ndims inconsistent: %r %r %r" % (L.size, L.fullShape, L.ndims)
                if msg:
                    return result(VIOL, cls=sorted(classes), n_eval=n_eval, key="C02:partition", events={"layouts_checked": n_eval},
                                  what="n=%d p=%d rank=%d: %s" % (n, p, k, msg), witness={"n": n, "p": p, "rank": k})
            classes.add("box/%s/%s" % ("even" if True else "", "x"))
        for p in range(1, n + 1):
            classes.add("box/%s/%s" % ("div" if n % p == 0 else "nondiv", "p1" if p == 1 else ("pn" if p == n else "mid")))
    classes.discard("box/even/x")
    return result(HELD, cls=sorted(classes), n_eval=n_eval, events={"layouts_checked": n_eval})


def _multi(case, lay):
    rng = random.Random(case["seed"])
    n_eval = 0
    classes = set()
    for _ in range(case["n"]):
        nd = rng.randint(1, 4)
        ndist = rng.randint(1, min(3, nd))
        order = list(range(nd))
        rng.shuffle(order)
        nprocs = [rng.choice([1, 1, 2, 3, 4, 5, 7]) for _ in range(ndist)]
        shape = [rng.randint(1, 12) for _ in range(nd)]
        for i, p in enumerate(nprocs):
            if shape[order[i]] < p:
                shape[order[i]] = p + rng.randint(0, 3)
        eta = [np.linspace(-1.0, 2.0, n) for n in shape]
        even = all(shape[order[i]] % p == 0 for i, p in enumerate(nprocs))
        classes.add("multi/nd%d/dist%d/%s" % (nd, sum(1 for p in nprocs if p > 1), "even" if even else "uneven"))
        for coord in itertools.product(*[range(p) for p in nprocs]):
            L = lay.Layout("m", list(nprocs), list(order), eta, list(coord))
            n_eval += 1
            msg = None
            for i in range(nd):
                p = nprocs[i] if i < ndist else 1
                k = coord[i] if i < ndist else 0
                msg = _check_dim(L, i, shape[order[i]], p, k)
                if msg:
                    msg = "layout position %d: %s" % (i, msg)
                    break
            if msg is None:
                if tuple(L.dims_order) != tuple(order):
                    msg = "dims_order %r != %r" % (L.dims_order, order)
                elif any(L.dims_order[L.inv_dims_order[j]] != j for j in range(nd)):
                    msg = "inv_dims_order %r is not the inverse of %r" % (L.inv_dims_order, L.dims_order)
                elif tuple(L.fullShape) != tuple(shape[j] for j in order):
                    msg = "fullShape %r != %r" % (L.fullShape, tuple(shape[j] for j in order))
                elif int(L.size) != int(np.prod(L.shape)):
                    msg = "size %r != prod(shape %r)" % (L.size, L.shape)
                elif int(L.max_block_size) != int(np.prod(L.max_block_shape)):
                    msg = "max_block_size %r != prod(%r)" % (L.max_block_size, L.max_block_shape)
                elif list(L.nprocs)[:ndist] != list(nprocs) or L.ndims != nd:
                    msg = "nprocs/ndims %r/%r" % (L.nprocs, L.ndims)
            if msg:
                return result(VIOL, cls=sorted(classes), n_eval=n_eval, key="C02:partition-multi", events={"layouts_checked": n_eval},
                              what="shape=%r order=%r nprocs=%r coord=%r: %s" % (shape, order, nprocs, coord, msg),
                              witness={"shape": shape, "order": order, "nprocs": nprocs, "coord": list(coord)})
    return result(HELD, cls=sorted(classes), n_eval=n_eval, events={"layouts_checked": n_eval})


def _grid(case, lay):
    from mpi4py import MPI
    from pygyro.model.grid import Grid
    from checks.c01 import gen_config, grid_pattern, is_even
    rng = random.Random(case["seed"])
    cfg = gen_config(rng, case["Pmax"], 9)
    shape, nprocs, layouts, dtype = cfg["shape"], cfg["nprocs"], cfg["layouts"], cfg["dtype"]
    if dtype not in ("float", "complex"):
        dtype = "float"
    swap_groups = None
    if case["seed"] % 4 == 3:
        # a grid managed by a LayoutSwapper (the potential's layouts in the driver): two layouts share one ordering on different
        # process grids, and the layouts are visited in a seeded order
        p0, p1 = rng.choice([(2, 2), (1, 2), (2, 3), (3, 2), (1, 3), (2, 1), (1, 1)])
        nprocs = [p0, p1]
        shape = [p0 + rng.randint(0, 5), p0 + rng.randint(0, 5), p1 + rng.randint(0, 5)]
        swap_groups = [{'v_parallel_2d': [0, 2, 1], 'mode_solve': [1, 2, 0]}, {'v_parallel_1d': [0, 2, 1]}, {'poloidal': [2, 1, 0]}]
        layouts = {k: v for g_ in swap_groups for k, v in g_.items()}
        order_ = list(layouts)
        rng.shuffle(order_)
        layouts = {k: layouts[k] for k in order_}
        cfg = {"shape": shape, "nprocs": nprocs, "layouts": layouts, "dtype": dtype, "swapper": True}
    P = int(np.prod(nprocs))
    nd = len(shape)
    G = lo.unique_global(shape, dtype)
    eta = [np.sort(np.random.RandomState(case["seed"] % (1 << 31) + d).uniform(-3, 3, n)) for d, n in enumerate(shape)]
    names = list(layouts.keys())
    base = "%s/%s" % (grid_pattern(nprocs), "even" if is_even(cfg) else "uneven") if swap_groups is None else "swapper-managed/%dx%d" % tuple(nprocs)
    pick_seed = case["seed"] ^ 0xabcdef

    def prog(rank):
        import warnings
        warnings.simplefilter("ignore")
        comm = MPI.COMM_WORLD
        try:
            if swap_groups is not None:
                h = lay.LayoutSwapper(comm, [dict(g_) for g_ in swap_groups], [list(nprocs), nprocs[0], nprocs[1]], eta, names[0])
            else:
                h = lay.getLayoutHandler(comm, dict(layouts), list(nprocs), eta)
        except RuntimeError as e:
            return {"refused": str(e)}
        out = {"bad": [], "ev": {}, "cls": set()}

        def ev(k):
            out["ev"][k] = out["ev"].get(k, 0) + 1
        for nm in names:
            if h.getLayout(nm).size > h.bufferSize:
                out["bad"].append("bufferSize %d < block size %d of %s" % (h.bufferSize, h.getLayout(nm).size, nm))
        g = Grid(eta, [None] * nd, h, names[0], comm, dtype=lo.np_dtype(dtype), allocateSaveMemory=True)
        g.getAllData()[:] = lo.expected_block(G, h.getLayout(names[0]))
        r2 = random.Random(pick_seed)
        seq = names[1:] + [r2.choice(names) for _ in range(2)]
        # history: ... , save in layout X, move to Y, restore (back in X without a setLayout), then go on
        seq = seq[:1] + ["<save>"] + seq[1:2] + ["<restore>"] + seq[2:]
        saved_name = None
        for step, nm in enumerate([names[0]] + seq):
            if nm == "<save>":
                g.saveGridValues()
                saved_name = g.currentLayout
                continue
            if nm == "<restore>":
                g.restoreGridValues()
                nm = saved_name
            elif step > 0:
                g.setLayout(nm)
            L = h.getLayout(nm)
            f = g.getAllData()
            if tuple(f.shape) != tuple(L.shape):
                out["bad"].append("%s: data view shape %r != layout shape %r" % (nm, f.shape, L.shape))
                return out
            for i in range(nd):
                d = L.dims_order[i]
                want = eta[d][L.starts[i]:L.ends[i]]
                got = list(g.getCoords(i))
                ev("accessor_getCoords")
                if [k for k, _ in got] != list(range(len(want))) or not np.array_equal(np.array([v for _, v in got], dtype=float), want):
                    out["bad"].append("%s: getCoords(%d) = %r..., expected local indices 0.. with values %r" % (nm, i, got[:3], want[:3]))
                cv = np.asarray(g.getCoordVals(i))
                ev("accessor_getCoordVals")
                if not np.array_equal(cv, want):
                    out["bad"].append("%s: getCoordVals(%d) wrong" % (nm, i))
                gi = list(g.getGlobalIdxVals(i))
                ev("accessor_getGlobalIdxVals")
                if gi != list(range(int(L.starts[i]), int(L.ends[i]))):
                    out["bad"].append("%s: getGlobalIdxVals(%d) = %r expected range(%d,%d)" % (nm, i, gi[:4], L.starts[i], L.ends[i]))
            for j in range(nd):
                pos = list(L.dims_order).index(j)
                want = eta[j][L.starts[pos]:L.ends[pos]]
                ev("accessor_getEta")
                got = list(g.getEta(j))
                if [k for k, _ in got] != list(range(len(want))) or not np.array_equal(np.array([v for _, v in got], dtype=float), want):
                    out["bad"].append("%s: getEta(%d) = %r..., expected %r..." % (nm, j, got[:3], want[:3]))
            # getGlobalIndices: value identity on the unique-id field
            if f.size:
                locs = [tuple(0 for _ in range(nd)), tuple(s - 1 for s in f.shape)]
                locs += [tuple(r2.randrange(s) for s in f.shape) for _ in range(6)]
                for loc in locs:
                    glob = g.getGlobalIndices(*loc)
                    ev("accessor_getGlobalIndices")
                    try:
                        okv = lo.bits_equal(np.array([G[tuple(int(x) for x in glob)]]), np.array([f[loc]]))
                    except Exception as e:  # noqa: BLE001
                        okv = False
                    if not okv:
                        out["bad"].append("%s: getGlobalIndices%r = %r but the cell holds global cell value %r" % (nm, loc, list(glob), f[loc]))
                        break
            for acc in ("getCoords", "getEta", "getCoordVals", "getGlobalIdxVals", "getGlobalIndices"):
                out["cls"].add("grid/%s/%s" % (acc, base))
            if out["bad"]:
                return out
        return out

    w = MPI.run_world(P, prog, schedule="random", seed=case["seed"], timeout=240)
    evs = dict(w.events)
    err = w.first_error()
    wit = {"cfg": cfg}
    if err is not None:
        wit["traceback"] = (w.tracebacks[err[0]] or "")[-2500:]
        ours, where = __import__("vlib.runner", fromlist=["x"]).classify_exception(err[1])
        return result(VIOL, cls=["grid/exception"], events=evs, key="C02:accessor-exception:%s@%s" % (type(err[1]).__name__, where),
                      what="rank %d raised %r (in %s); cfg=%r" % (err[0], err[1], where, cfg), witness=wit)
    if any("refused" in r for r in w.results):
        if not all("refused" in r for r in w.results):
            return result(VIOL, cls=["grid/refused"], events=evs, key="C02:inconsistent-refusal", what="refused on some ranks only", witness=wit)
        return result(SKIP, what="layout set refused (not connected)")
    bad = [m for r in w.results for m in r["bad"]]
    cls = sorted(set(c for r in w.results for c in r["cls"]))
    n_eval = 0
    for r in w.results:
        for k, v in r["ev"].items():
            evs[k] = evs.get(k, 0) + v
            n_eval += v
    if bad:
        wit["messages"] = bad[:6]
        return result(VIOL, cls=cls, events=evs, key="C02:accessor-wrong", what=bad[0] + " cfg=%r" % (cfg,), witness=wit, n_eval=n_eval)
    return result(HELD, cls=cls, events=evs, n_eval=n_eval)
