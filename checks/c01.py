"""C01 -- layout transposes of a LayoutHandler preserve the global field.

Monitor: every rank fills its block of layout a with a unique-id global field (sentinel
elsewhere), calls the real LayoutHandler.transpose under the simulated MPI, and compares the
destination block bit-for-bit with the slice of the global field its layout assigns to it; with
a spare buffer the source block must stay bit-identical.  Path kind (copy / local / 1 Alltoall /
k-step redirect) is read from the simulated-MPI trace.
"""
import itertools
import random

import numpy as np

from vlib import paths
paths.setup()
from vlib.runner import result, HELD, VIOL, SKIP, INCO  # noqa: E402
from vlib import layout_oracle as lo  # noqa: E402

ID = "C01"
LEVEL = "exploration"
NEEDS_SIMMPI = True
RULE = ("seeded generator of handler configurations: array rank 2-4, 1-3 distributed directions, process grids incl. "
        "(1,n) and (n,1), extents biased to n=p, p+1, 2p-1, primes and 1, layout sets = the three physics orderings or "
        "2-6 random distinct permutations; per configuration ALL ordered layout pairs (incl. a->a) with and without "
        "spare buffer, then a random walk of 10-30 transposes re-using three buffers without clearing (stale data), "
        "float64/complex128/int64 and float32/int32/complex64 unique-id payload, seeded-random arrival order.  A class is (array rank, grid pattern, "
        "even|uneven blocks, path kind from the trace [0 Alltoall local / 1 / k-step], buffer, dtype); only transposes "
        "whose destination block was compared count.")
ASSUMPTIONS = ["simulated MPI layer (threads as ranks) is faithful for Create_cart/Sub/Alltoall (self-tested before every run)",
               "process counts up to 6 (quick) / 12 (thorough); extents up to 9 (12 thorough)"]
REQUIRED_EVENTS = {"Alltoall": 1, "transposes_compared": 1, "redirect_transposes": 1, "transposes_with_4_or_more_exchanges": 1}
CASE_TIMEOUT = {"quick": 300, "thorough": 900}

PHYS = {'flux_surface': [0, 3, 1, 2], 'v_parallel': [0, 2, 1, 3], 'poloidal': [3, 2, 1, 0]}
_PRIMES = [2, 3, 5, 7, 11, 13]


def _compatible(nprocs, a, b):
    return sum(1 for i, n in enumerate(nprocs) if n > 1 and a[i] != b[i]) < 2


def _diameter(nprocs, lays):
    names = list(lays)
    best = 0
    for s_ in names:
        dist = {s_: 0}
        frontier = [s_]
        while frontier:
            nxt = []
            for u in frontier:
                for v in names:
                    if v not in dist and _compatible(nprocs, lays[u], lays[v]):
                        dist[v] = dist[u] + 1
                        nxt.append(v)
            frontier = nxt
        if len(dist) < len(names):
            return -1
        best = max(best, max(dist.values()))
    return best


def _chain_layouts(rng, nd, nprocs):
    """layout sets that are LONG CHAINS in the connection graph (each layout obtained from the previous one by exchanging one
    distributed position with a non-distributed one), kept when some pair is four or more direct transposes apart: random sets of
    orderings almost never need more than three steps, so routes of 4, 5, ... steps (with and without a spare buffer) were never driven"""
    ndist = len(nprocs)
    dpos = [i for i, n in enumerate(nprocs) if n > 1]
    best = None
    for _try in range(60):
        p = list(range(nd))
        rng.shuffle(p)
        seq = [tuple(p)]
        for _step in range(rng.randint(4, 7)):
            for _t in range(20):
                i = rng.choice(dpos)
                j = rng.randrange(ndist, nd)
                q = list(seq[-1])
                q[i], q[j] = q[j], q[i]
                if tuple(q) not in seq:
                    seq.append(tuple(q))
                    break
        lays = {"L%d_%s" % (i, "".join(map(str, q))): list(q) for i, q in enumerate(seq)}
        d = _diameter(nprocs, lays)
        if best is None or d > best[0]:
            best = (d, lays)
        if d >= 4:
            break
    if best is None or best[0] < 4:
        return None
    items = list(best[1].items())
    rng.shuffle(items)
    return dict(items)


def gen_config(rng, Pmax, nmax):
    nd = rng.choice([2, 3, 3, 4, 4, 4])
    ndist = rng.choice([1, 2, 2, 2, 3]) if nd >= 3 else rng.choice([1, 2])
    ndist = min(ndist, nd)
    while True:
        mode = rng.randrange(5)
        if mode == 0 and ndist >= 2:
            nprocs = [1] + [rng.randint(2, Pmax)] + [1] * (ndist - 2)
        elif mode == 1 and ndist >= 2:
            nprocs = [rng.randint(2, Pmax)] + [1] * (ndist - 1)
        else:
            nprocs = [rng.randint(1, 4) for _ in range(ndist)]
        if int(np.prod(nprocs)) <= Pmax:
            break
    chain = None
    if nd >= 3 and sum(1 for n in nprocs if n > 1) >= 2 and nd > ndist and rng.random() < 0.3:
        chain = _chain_layouts(rng, nd, nprocs)
    if chain is not None:
        layouts = chain
    elif nd == 4 and ndist <= 2 and rng.random() < 0.45:
        layouts = {k: list(v) for k, v in PHYS.items()}
    else:
        perms = list(itertools.permutations(range(nd)))
        k = rng.randint(2, min(6, len(perms)))
        chosen = rng.sample(perms, k)
        layouts = {"L%d_%s" % (i, "".join(map(str, p))): list(p) for i, p in enumerate(chosen)}
        # shuffle insertion order (route search iterates over dict order)
        items = list(layouts.items())
        rng.shuffle(items)
        layouts = dict(items)
    req = [1] * nd
    for p in layouts.values():
        for i, n in enumerate(nprocs):
            req[p[i]] = max(req[p[i]], n)
    shape = []
    for d in range(nd):
        r = req[d]
        opts = [r, r + 1, max(r, 2 * r - 1), rng.randint(r, max(r, nmax))]
        opts += [q for q in _PRIMES if r <= q <= nmax][:2]
        if r > 1:
            opts += [2 * r, r]      # even blocks on purpose
        n = rng.choice(opts)
        if r == 1 and rng.random() < 0.1:
            n = 1
        shape.append(int(min(n, max(nmax, r))))
    dtype = rng.choice(["float", "float", "complex", "int", "float32", "int32", "complex64"])
    return {"shape": shape, "nprocs": nprocs, "layouts": layouts, "dtype": dtype}


def gen_cases(tier, seed):
    rng = random.Random(1234567 + seed)
    n, Pmax, nmax = (260, 6, 9) if tier == "quick" else (6000, 12, 12)
    cases = []
    # fixed witnesses first: uneven blocks on a (1,n) grid with the physics layouts (historic finding)
    for shape, nprocs in (([4, 5, 7, 8], [1, 3]), ([8, 4, 7, 4], [1, 3]), ([5, 4, 6, 7], [3, 1]), ([4, 5, 6, 9], [1, 3]),
                          ([7, 3, 5, 9], [2, 3]), ([4, 4, 4, 4], [2, 2])):
        cases.append({"kind": "config", "cfg": {"shape": shape, "nprocs": nprocs, "layouts": PHYS, "dtype": "float"},
                      "sched_seed": 1, "walk": 12})
    for k in range(n):
        cfg = gen_config(rng, Pmax, nmax)
        nsched = 1 if tier == "quick" else 3
        for s in range(nsched):
            cases.append({"kind": "config", "cfg": cfg, "sched_seed": rng.randrange(1 << 30), "walk": rng.randint(10, 30),
                          "cost": int(np.prod(cfg["nprocs"])) * len(cfg["layouts"]) ** 2})
    return cases


def grid_pattern(nprocs):
    P = int(np.prod(nprocs))
    if P == 1:
        return "serial"
    nz = [n for n in nprocs if n > 1]
    if len(nprocs) >= 2 and nprocs[0] == 1:
        return "lead1"
    if len(nz) == 1 and len(nprocs) >= 2:
        return "trail1"
    if len(nz) == 1:
        return "1d"
    if len(set(nz)) == 1:
        return "square"
    return "rect"


def is_even(cfg):
    for p in cfg["layouts"].values():
        for i, n in enumerate(cfg["nprocs"]):
            if cfg["shape"][p[i]] % n:
                return False
    return True


def run_case(case):
    from mpi4py import MPI
    from pygyro.model import layout as lay
    paths.assert_repo(lay)
    cfg = case["cfg"]
    shape, nprocs, layouts, dtype = cfg["shape"], list(cfg["nprocs"]), cfg["layouts"], cfg["dtype"]
    P = int(np.prod(nprocs))
    G = lo.unique_global(shape, dtype)
    eta = [np.linspace(0.0, 1.0, n) for n in shape]
    names = list(layouts.keys())
    base = "nd%d/%s/%s/%s" % (len(shape), grid_pattern(nprocs), "even" if is_even(cfg) else "uneven", dtype)
    walk_rng_seed = case["sched_seed"] ^ 0x5a5a

    def prog(rank):
        import warnings
        warnings.simplefilter("ignore")
        comm = MPI.COMM_WORLD
        if case["sched_seed"] % 3 == 0:
            comm = comm.Split(0, -rank)          # the same processes numbered in the opposite order to the world communicator
        w = MPI.current_world()
        if case["sched_seed"] % 4 == 1 and len(names) > 1:
            # history across objects: another handler on the same process grid whose layouts carry the SAME names with other
            # orderings (the orderings rotated among the names) is built and used first; it must not influence the handler under test
            rot = dict(zip(names, [layouts[n] for n in names[1:] + names[:1]]))
            try:
                hd = lay.getLayoutHandler(comm, rot, list(nprocs), eta)
                a_, b_ = np.zeros(hd.bufferSize, dtype=lo.np_dtype(dtype)), np.zeros(hd.bufferSize, dtype=lo.np_dtype(dtype))
                hd.transpose(a_, b_, names[0], names[1])
            except RuntimeError:
                pass
        try:
            # the orderings as lists of Python ints, numpy integer arrays or lists of numpy integers (array_like is documented)
            orep = case["sched_seed"] % 5
            lays_in = {k_: (np.array(v_) if orep == 2 else ([np.int64(x_) for x_ in v_] if orep == 4 else list(v_))) for k_, v_ in layouts.items()}
            h = lay.getLayoutHandler(comm, lays_in, list(nprocs), eta)
        except RuntimeError as e:
            return {"refused": str(e)}
        out = {"bad": [], "cls": set(), "n": 0, "redirect": 0}
        bufs = (lo.Guarded(h.bufferSize, dtype), lo.Guarded(h.bufferSize, dtype), lo.Guarded(h.bufferSize, dtype))
        for name in names:
            L = h.getLayout(name)
            if L.size > h.bufferSize:
                out["bad"].append("bufferSize %d < size %d of layout %s" % (h.bufferSize, L.size, name))
        for a in names:
            for b in names:
                for wb in (False, True):
                    t0 = len(w.trace[rank])
                    msg = lo.transpose_and_check(h, G, a, b, wb, dtype=dtype, bufs=bufs)
                    k = sum(1 for t in w.trace[rank][t0:] if t[2].lower().startswith("alltoall"))
                    out["n"] += 1
                    if k == 0 and wb:
                        out.setdefault("local_pairs", []).append((a, b))
                    if k > 1:
                        out["redirect"] += 1
                    kind = "same" if a == b else ("local" if k == 0 else ("alltoall1" if k == 1 else ("redirect" if k < 4 else "redirect4+")))
                    if k >= 4:
                        out["long"] = out.get("long", 0) + 1
                    out["cls"].add("%s/%s/%s" % (base, kind, "buf" if wb else "nobuf"))
                    if msg:
                        out["bad"].append("%s->%s %s (%d Alltoall): %s" % (a, b, "with buffer" if wb else "no buffer", k, msg))
                        if len(out["bad"]) > 3:
                            return out
        # pairs that need no communication (same layout, or a purely local re-ordering) accept any 1-D arrays: hand over two
        # INTERLEAVED strided views of one block (columns of an (n,2) array; real and imaginary part of one complex block do the same)
        for (a, b) in out.get("local_pairs", [])[:8]:
            for wb in ((False, True) if a == b else (True,)):      # the in-place variant of a local re-ordering asserts that it was given whole arrays
                La_, Lb_ = h.getLayout(a), h.getLayout(b)
                blk = np.full((h.bufferSize, 2), lo.sentinel(dtype), dtype=lo.np_dtype(dtype))
                src_, dst_ = blk[:, 0], blk[:, 1]
                src_[:La_.size] = lo.expected_block(G, La_).reshape(-1)
                keep_ = src_.copy()
                spare_ = np.full(h.bufferSize, lo.sentinel(dtype), dtype=lo.np_dtype(dtype))
                h.transpose(src_, dst_, a, b, spare_ if wb else None)
                out["n"] += 1
                out["strided"] = out.get("strided", 0) + 1
                out["cls"].add("%s/local-strided-views/%s" % (base, "buf" if wb else "nobuf"))
                if not lo.bits_equal(np.array(dst_[:Lb_.size]).reshape(Lb_.shape), lo.expected_block(G, Lb_)):
                    out["bad"].append("%s->%s %s with source and destination given as interleaved strided views of one block: destination does not hold the field" % (a, b, "with buffer" if wb else "no buffer"))
                    return out
                if wb and not lo.bits_equal(src_, keep_):
                    out["bad"].append("%s->%s with buffer (strided views): source modified" % (a, b))
                    return out
        # random walk re-using three buffers without clearing them in between
        rng = random.Random(walk_rng_seed)
        X, Y, Z = [np.full(h.bufferSize, lo.sentinel(dtype), dtype=lo.np_dtype(dtype)) for _ in range(3)]
        cur = rng.choice(names)
        Lc = h.getLayout(cur)
        X[:Lc.size] = lo.expected_block(G, Lc).reshape(-1)
        for hop in range(case.get("walk", 12)):
            nxt = rng.choice(names)
            wb = rng.random() < 0.5
            keep = X[:h.getLayout(cur).size].copy()
            h.transpose(X, Y, cur, nxt, Z if wb else None)
            Ln = h.getLayout(nxt)
            got = Y[:Ln.size].reshape(Ln.shape)
            exp = lo.expected_block(G, Ln)
            out["n"] += 1
            out["cls"].add("%s/walk/%s" % (base, "buf" if wb else "nobuf"))
            if not lo.bits_equal(got, exp):
                out["bad"].append("walk hop %d %s->%s %s: %s" % (hop, cur, nxt, "with buffer" if wb else "no buffer", lo.describe_diff(got, exp, G)))
                return out
            if wb and not lo.bits_equal(X[:keep.size], keep):
                out["bad"].append("walk hop %d %s->%s: source modified although buffer given" % (hop, cur, nxt))
                return out
            X, Y = Y, X
            cur = nxt
        return out

    w = MPI.run_world(P, prog, schedule="random", seed=case["sched_seed"], timeout=case.get("timeout", 280))
    ev = dict(w.events)
    sched = str(hash(w.arrival_signature()))
    err = w.first_error()
    wit = {"cfg": cfg, "sched_seed": case["sched_seed"]}
    if err is not None:
        wit["traceback"] = (w.tracebacks[err[0]] or "")[-2500:]
        return result(VIOL, cls=[base + "/exception"], events=ev, key="C01:exception:%s" % type(err[1]).__name__,
                      what="rank %d raised %r during construction/transposes; cfg=%r" % (err[0], err[1], cfg), witness=wit, sched=sched)
    res = w.results
    refused = [isinstance(r, dict) and "refused" in r for r in res]
    if any(refused):
        if not all(refused):
            return result(VIOL, cls=[base + "/refused"], events=ev, key="C01:inconsistent-refusal",
                          what="layout set refused on some ranks only: %r" % (refused,), witness=wit)
        ev["refused_sets"] = 1
        return result(HELD, cls=[base + "/refused"], events=ev, sched=sched)
    bad = [m for r in res for m in r["bad"]]
    cls = sorted(set(c for r in res for c in r["cls"]))
    ev["transposes_compared"] = sum(r["n"] for r in res)
    ev["redirect_transposes"] = sum(r["redirect"] for r in res)
    ev["transposes_with_4_or_more_exchanges"] = sum(r.get("long", 0) for r in res)
    ev["local_transposes_on_strided_views"] = sum(r.get("strided", 0) for r in res)
    if w.unmatched():
        bad.append("unmatched collectives left at exit: %r" % (w.unmatched()[:3],))
    if bad:
        wit["messages"] = bad[:6]
        return result(VIOL, cls=cls, events=ev, key="C01:wrong-data", what=bad[0] + " cfg=%r" % (cfg,), witness=wit, sched=sched,
                      n_eval=ev["transposes_compared"])
    return result(HELD, cls=cls, events=ev, sched=sched, n_eval=ev["transposes_compared"])
