"""C20 -- process-grid selection returns a valid factorisation or reports none exists.

Oracle: brute-force divisor enumeration.  Termination: sys.monitoring line-event budget.
Layouts: the three standard layouts are built and connected under the simulated MPI on the
grid the function chose, every rank owning >= 1 point in every distributed dimension, and a
round of transposes of a unique-id field is verified.
"""
import random

import numpy as np

from vlib import paths
paths.setup()
from vlib.runner import result, HELD, VIOL, SKIP, INCO  # noqa: E402
from vlib.stepcount import LineCounter, BudgetExceeded  # noqa: E402

ID = "C20"
LEVEL = "exploration"
NEEDS_SIMMPI = True
EXHAUSTIVE = {"quick": True, "thorough": True}
RULE = ("(a) exhaustive box: every (max1,max2,P) with max1,max2<=N, P<=Pmax (quick N=40,Pmax=64; thorough N=96,"
        "Pmax=256) compared with brute-force divisor enumeration, termination judged by a line-event budget "
        "50*(P+max1+max2)+1000; (b) seeded random triples up to 1e4 biased to highly composite numbers, primes and products just "
        "above max1*max2; (c) compute_2d_process_grid(npts,P) vs. brute force on npts; (d) the three standard layouts "
        "built on the chosen grid under simulated MPI, all ranks own >=1 point per distributed dimension, all ordered "
        "layout pairs transposed with a unique-id field; (e) the real setupCylindricalGrid on 2-7 simulated ranks with and without "
        "a plot-only rank: the chosen grid multiplies to the number of ranks sharing the layouts on every rank.  A class is (valid-set size 0/1/many, P prime/composite/1, "
        "outcome error/grid, which bound binds); distinct_nontrivial counts classes in which the oracle compared.")
ASSUMPTIONS = ["simulated MPI layer (threads as ranks) is faithful for Create_cart/Sub/Alltoall (self-tested)",
               "exhaustive only inside the stated box; beyond it seeded random sampling"]
REQUIRED_EVENTS = {"grid_returned": 1, "error_raised": 1, "layout_worlds": 1, "setup_worlds": 1}


def _valid_set(m1, m2, P):
    return [(a, P // a) for a in range(1, min(m1, P) + 1) if P % a == 0 and P // a <= m2]


def _is_prime(n):
    if n < 2:
        return False
    i = 2
    while i * i <= n:
        if n % i == 0:
            return False
        i += 1
    return True


def _cls(m1, m2, P, V, outcome):
    pk = "P=1" if P == 1 else ("prime" if _is_prime(P) else "composite")
    vk = "V0" if not V else ("V1" if len(V) == 1 else "Vmany")
    bind = "P>m1*m2" if P > m1 * m2 else ("P>m2" if P > m2 else ("P>m1" if P > m1 else "free"))
    return "%s/%s/%s/%s" % (vk, pk, outcome, bind)


def _check_one(f, counter, m1, m2, P, events, classes):
    V = _valid_set(m1, m2, P)
    counter.count = 0
    counter.budget = 50 * (P + m1 + m2) + 1000
    try:
        got = f(m1, m2, P)
    except BudgetExceeded as e:
        return ("no-termination-within-budget", "max=(%d,%d), P=%d: %s" % (m1, m2, P, e))
    except Exception as e:  # noqa: BLE001 - any exception counts as "an error is raised" (its type is not part of the property)
        events["error_raised"] = events.get("error_raised", 0) + 1
        classes.add(_cls(m1, m2, P, V, "error"))
        if V:
            return ("error-although-valid-exists", "%s raised for max=(%d,%d), P=%d although %r are valid" % (type(e).__name__, m1, m2, P, V[:4]))
        return None
    events["grid_returned"] = events.get("grid_returned", 0) + 1
    classes.add(_cls(m1, m2, P, V, "grid"))
    try:
        a, b = got
        a, b = int(a), int(b)
    except Exception:  # noqa: BLE001
        return ("malformed-result", "max=(%d,%d), P=%d returned %r" % (m1, m2, P, got))
    if (a, b) not in V:
        if not V:
            return ("grid-although-none-valid", "max=(%d,%d), P=%d returned %r but no valid factorisation exists" % (m1, m2, P, got))
        return ("invalid-grid", "max=(%d,%d), P=%d returned %r, not in valid set %r" % (m1, m2, P, got, V[:6]))
    return None


def gen_cases(tier, seed):
    cases = []
    N, Pmax = (40, 64) if tier == "quick" else (96, 256)
    step = 4 if tier == "quick" else 4
    for lo in range(1, Pmax + 1, step):
        cases.append({"kind": "box", "N": N, "P_lo": lo, "P_hi": min(Pmax, lo + step - 1), "cost": (lo + step) * N * N / 1000.0})
    nrand = 24 if tier == "quick" else 1000
    for k in range(nrand):
        cases.append({"kind": "random", "seed": seed * 1000003 + k, "n": 500 if tier == "quick" else 2000, "cost": 5})
    nl = 40 if tier == "quick" else 1500
    for k in range(nl):
        cases.append({"kind": "layouts", "seed": seed * 7919 + k, "Pmax": 12 if tier == "quick" else 24, "cost": 8})
    for k in range(10 if tier == "quick" else 100):
        # plot-only rank, entry point and rank count vary independently (they used to be tied: plot <=> restart <=> odd P)
        cases.append({"kind": "setup", "seed": seed * 6151 + k, "P": [2, 3, 4, 5, 6, 7][k % 6], "plot": bool((k // 3) % 2), "restart": bool((k // 2 + seed) % 2), "cost": 30})
    return cases


_HC = [1, 2, 4, 6, 12, 24, 36, 48, 60, 120, 180, 240, 360, 720, 840, 1260, 1680, 2520, 5040, 7560]


def _rand_triple(rng):
    mode = rng.randrange(6)
    m1 = rng.choice([1, 2, 3, rng.randint(1, 30), rng.randint(1, 300), rng.randint(1, 10000)])
    m2 = rng.choice([1, 2, 3, rng.randint(1, 30), rng.randint(1, 300), rng.randint(1, 10000)])
    if mode == 0:
        P = rng.choice(_HC)
    elif mode == 1:
        P = rng.choice([2, 3, 5, 7, 11, 13, 97, 101, 127, 251, 509, 1009, 4999, 9973])
    elif mode == 2:
        P = min(10000, m1 * m2 + rng.randint(0, 3))
    elif mode == 3:
        P = max(1, min(10000, m1 * m2 - rng.randint(0, 3)))
    elif mode == 4:
        a = rng.randint(1, max(1, m1))
        b = rng.randint(1, max(1, m2))
        P = min(10000, a * b)
    else:
        P = rng.randint(1, 10000)
    return m1, m2, max(1, P)


def run_case(case):
    from pygyro.model import process_grid as pg
    paths.assert_repo(pg)
    f = pg.compute_2d_process_grid_from_max
    events = {}
    classes = set()
    n_eval = 0
    if case["kind"] == "box":
        N = case["N"]
        with LineCounter(f) as c:
            for P in range(case["P_lo"], case["P_hi"] + 1):
                for m1 in range(1, N + 1):
                    for m2 in range(1, N + 1):
                        n_eval += 1
                        bad = _check_one(f, c, m1, m2, P, events, classes)
                        if bad:
                            return result(VIOL, cls=sorted(classes), events=events, n_eval=n_eval, key="C20:" + bad[0],
                                          what=bad[1], witness={"max1": m1, "max2": m2, "P": P})
        return result(HELD, cls=sorted(classes), events=events, n_eval=n_eval)
    if case["kind"] == "random":
        rng = random.Random(case["seed"])
        with LineCounter(f) as c:
            for _ in range(case["n"]):
                m1, m2, P = _rand_triple(rng)
                n_eval += 1
                bad = _check_one(f, c, m1, m2, P, events, classes)
                if bad:
                    return result(VIOL, cls=sorted(classes), events=events, n_eval=n_eval, key="C20:" + bad[0],
                                  what=bad[1], witness={"max1": m1, "max2": m2, "P": P})
                # the npts form must agree with brute force on min(n_r,n_v), min(n_z,n_v)
                nr, nz, nv = m1 + rng.randint(0, 3), m2 + rng.randint(0, 3), max(m1, m2) + rng.randint(0, 2)
                nth = rng.randint(1, 50)
                V = _valid_set(min(nr, nv), min(nz, nv), P)
                c.count = 0
                c.budget = 50 * (P + nr + nz + nv) + 1000
                try:
                    # the sizes as a list, a tuple, a numpy array (int64 / int32), a strided view of one, or numpy scalars in a list
                    nrep = n_eval % 6
                    base_ = [nr, nth, nz, nv]
                    npts_in = (base_, tuple(base_), np.array(base_), np.array(base_, dtype=np.int32), np.array([nr, 0, nth, 0, nz, 0, nv, 0])[::2],
                               [np.int64(x) for x in base_])[nrep]
                    P_in = (P, np.int64(P))[(n_eval // 6) % 2]
                    classes.add("npts-as-%s" % ("list", "tuple", "int64-array", "int32-array", "strided-array", "list-of-numpy-ints")[nrep])
                    got = pg.compute_2d_process_grid(npts_in, P_in)
                    if [int(x) for x in npts_in] != base_:
                        return result(VIOL, cls=sorted(classes), events=events, n_eval=n_eval, key="C20:npts-argument-modified",
                                      what="compute_2d_process_grid changed the sizes it was handed: %r -> %r" % (base_, list(npts_in)), witness={"npts": base_, "P": P})
                    ok = tuple(int(x) for x in got) in V
                    events["npts_form"] = events.get("npts_form", 0) + 1
                    if not ok:
                        return result(VIOL, cls=sorted(classes), events=events, n_eval=n_eval, key="C20:npts-form-invalid-grid",
                                      what="compute_2d_process_grid(%r,%d) returned %r; valid: %r" % ([nr, nth, nz, nv], P, got, V[:6]),
                                      witness={"npts": [nr, nth, nz, nv], "P": P})
                except BudgetExceeded as e:
                    return result(VIOL, cls=sorted(classes), events=events, n_eval=n_eval, key="C20:no-termination-within-budget",
                                  what="compute_2d_process_grid(%r,%d): %s" % ([nr, nth, nz, nv], P, e), witness={"npts": [nr, nth, nz, nv], "P": P})
                except Exception:  # noqa: BLE001
                    events["npts_form_error"] = events.get("npts_form_error", 0) + 1
                    if V:
                        return result(VIOL, cls=sorted(classes), events=events, n_eval=n_eval, key="C20:npts-form-error-although-valid",
                                      what="compute_2d_process_grid(%r,%d) raised although %r valid" % ([nr, nth, nz, nv], P, V[:4]),
                                      witness={"npts": [nr, nth, nz, nv], "P": P})
        return result(HELD, cls=sorted(classes), events=events, n_eval=n_eval)
    if case["kind"] in ("layouts", "setup"):
        # a generous budget of executed lines of the search for the whole case: a search that does not terminate ends the case
        # as a violation instead of hanging until the watchdog
        try:
            with LineCounter(f, budget=3000000):
                return _layouts_case(case, pg) if case["kind"] == "layouts" else _setup_case(case, pg)
        except BudgetExceeded as e:
            return result(VIOL, cls=["%s/no-termination" % case["kind"]], events=events, key="C20:no-termination-within-budget", what="process-grid search inside the %s workload: %s" % (case["kind"], e), witness={"case": case})
    return result(INCO, what="unknown case kind")


def _layouts_case(case, pg):
    from mpi4py import MPI
    from pygyro.model.layout import getLayoutHandler
    from vlib import layout_oracle as lo
    rng = random.Random(case["seed"])
    P = rng.randint(1, case["Pmax"])
    # sizes chosen so that a valid grid usually exists and blocks are small and uneven
    for _try in range(50):
        npts = [rng.randint(1, 9), rng.randint(1, 5), rng.randint(1, 9), rng.randint(1, 9)]
        V = _valid_set(min(npts[0], npts[3]), min(npts[2], npts[3]), P)
        if V:
            break
    else:
        return result(SKIP, what="no admissible npts found for P=%d" % P)
    nprocs = pg.compute_2d_process_grid(npts, P)
    nprocs = [int(nprocs[0]), int(nprocs[1])]
    if tuple(nprocs) not in V:
        return result(VIOL, cls=["layouts"], key="C20:npts-form-invalid-grid",
                      what="compute_2d_process_grid(%r,%d) returned %r; valid %r" % (npts, P, nprocs, V[:6]),
                      witness={"npts": npts, "P": P})
    layouts = {'flux_surface': [0, 3, 1, 2], 'v_parallel': [0, 2, 1, 3], 'poloidal': [3, 2, 1, 0]}
    eta = [np.linspace(0, 1, n) for n in npts]
    G = lo.unique_global(npts, "float")

    def prog(rank):
        comm = MPI.COMM_WORLD
        h = getLayoutHandler(comm, layouts, nprocs, eta)
        bad = []
        for name in layouts:
            L = h.getLayout(name)
            for i in range(2):
                if L.shape[i] < 1:
                    bad.append("rank %d owns %d points of dimension %d in layout %s" % (rank, L.shape[i], i, name))
        if bad:
            return bad
        for a in layouts:
            for b in layouts:
                if a == b:
                    continue
                msg = lo.transpose_and_check(h, G, a, b, with_buf=rng_local[rank].random() < 0.5)
                if msg:
                    bad.append("rank %d %s->%s: %s" % (rank, a, b, msg))
        return bad

    rng_local = [random.Random(case["seed"] * 31 + 7) for _r in range(P)]  # same decision on every rank
    w = MPI.run_world(P, prog, schedule="random", seed=case["seed"], timeout=240)
    ev = dict(w.events)
    ev["layout_worlds"] = 1
    cls = "layouts/P=%d/grid=%s" % (P, "1xn" if nprocs[0] == 1 and nprocs[1] > 1 else ("nx1" if nprocs[1] == 1 and nprocs[0] > 1 else ("1x1" if P == 1 else "axb")))
    err = w.first_error()
    key = lo.c01_known_key(npts, nprocs, layouts)
    if err is not None:
        return result(VIOL, cls=[cls], events=ev, key=key or ("C20:layouts-exception:" + type(err[1]).__name__),
                      what="building/transposing standard layouts on chosen grid %r for npts=%r, P=%d failed on rank %d: %r"
                      % (nprocs, npts, P, err[0], err[1]), witness={"npts": npts, "P": P, "nprocs": nprocs, "tb": w.tracebacks[err[0]]},
                      sched=str(hash(w.arrival_signature())))
    bad = [m for r in w.results for m in (r or [])]
    if bad:
        return result(VIOL, cls=[cls], events=ev, key=key or "C20:layouts-wrong",
                      what=bad[0], witness={"npts": npts, "P": P, "nprocs": nprocs, "msgs": bad[:5]})
    return result(HELD, cls=[cls], events=ev, sched=str(hash(w.arrival_signature())))


def _setup_case(case, pg):
    """the real set-up function (incl. the rarely used plot-only rank): the grid it chooses must multiply to the number of
    ranks that share the layouts on EVERY rank, and the standard layouts must build and connect"""
    import json
    import os
    import shutil
    import tempfile
    from mpi4py import MPI
    from pygyro.initialisation import setups
    from vlib import driver_run as dr
    rng = random.Random(case["seed"])
    P, plot = case["P"], case["plot"]
    nwork = P - 1 if plot else P
    for _try in range(100):
        npts = [rng.randint(6, 10), rng.randint(6, 9), rng.randint(7, 10), rng.randint(6, 10)]
        if _valid_set(min(npts[0], npts[3]), min(npts[2], npts[3]), nwork):
            break
    else:
        return result(SKIP, what="no admissible grid")
    draw = rng.randrange(P)
    tmp = tempfile.mkdtemp(prefix="verif_c20_")
    try:
        cfile = os.path.join(tmp, "c.json")
        dr.write_constants(cfile, npts, dt=2)

        restart = bool(case.get("restart", case["seed"] % 2))      # the restart entry point on a folder written beforehand (serially)
        folder = os.path.join(tmp, "sim")
        if restart:
            from vlib import simh5
            simh5.install()
            os.mkdir(folder)
            shutil.copy(cfile, os.path.join(folder, "initParams.json"))

            def writer(rank):
                g0, _c, _t = setups.setupCylindricalGrid('v_parallel', constantFile=cfile, comm=MPI.COMM_WORLD)
                g0.writeH5Dataset(folder, 4)
                return True
            w0 = MPI.run_world(1, writer, timeout=300)
            if w0.first_error() is not None:
                return result(INCO, what="could not write the checkpoint for the restart variant: %r" % (w0.first_error()[1],))

        def prog(rank):
            comm = MPI.COMM_WORLD
            kw = dict(plotThread=(True, 1, np.True_)[case["seed"] % 3], drawRank=draw) if plot else {}
            if restart:
                grid, c, t = setups.setupFromFile(folder, comm=comm, allocateSaveMemory=True, layout='v_parallel', **kw)
            else:
                if (case["seed"] // 3) % 2:
                    # the sizes also handed over directly, as a numpy array the caller keeps using
                    mine = np.array(npts)
                    kw["npts"] = mine
                grid, c, t = setups.setupCylindricalGrid('v_parallel', constantFile=cfile, comm=comm, allocateSaveMemory=True, **kw)
                if "npts" in kw and [int(x) for x in mine] != list(npts):
                    raise AssertionError("setupCylindricalGrid changed the npts array it was handed: %r -> %r" % (npts, mine.tolist()))
            lm = grid._layout_manager
            out = {"nprocs": [int(x) for x in lm.nProcs], "empty": grid.getAllData().size == 0, "shapes": {}}
            for lay_ in ('flux_surface', 'poloidal', 'v_parallel'):
                grid.setLayout(lay_)
                out["shapes"][lay_] = [int(x) for x in grid.getLayout(lay_).shape]
            return out
        w = MPI.run_world(P, prog, schedule="random", seed=case["seed"], timeout=300)
    finally:
        shutil.rmtree(tmp, ignore_errors=True)
    ev = dict(w.events)
    ev["layout_worlds"] = 1
    ev["setup_worlds"] = 1
    cls = ["setup/P%d/%s/%s" % (P, "plot-rank" if plot else "all-workers", "restart" if restart else "fresh")]
    wit = {"case": case, "npts": npts, "draw": draw}
    err = w.first_error()
    if err is not None:
        wit["traceback"] = (w.tracebacks[err[0]] or "")[-2500:]
        return result(VIOL, cls=cls, events=ev, key="C20:setup-exception:%s" % type(err[1]).__name__,
                      what="%s(plotThread=%r, drawRank=%d) on %d ranks, npts=%r: rank %d raised %r" % ("setupFromFile" if restart else "setupCylindricalGrid", plot, draw, P, npts, err[0], err[1]), witness=wit)
    for r, o in enumerate(w.results):
        share = 1 if (plot and r == draw) else nwork
        if int(np.prod(o["nprocs"])) != share:
            return result(VIOL, cls=cls, events=ev, key="C20:setup-grid-does-not-multiply-to-process-count",
                          what="rank %d: chosen process grid %r does not multiply to the %d rank(s) sharing the layouts" % (r, o["nprocs"], share), witness=wit)
        if not (plot and r == draw):
            for lay_, shp in o["shapes"].items():
                if min(shp[:2]) < 1:
                    return result(VIOL, cls=cls, events=ev, key="C20:setup-empty-block", what="rank %d owns an empty block %r in layout %s" % (r, shp, lay_), witness=wit)
    return result(HELD, cls=cls, events=ev, sched=str(hash(w.arrival_signature())))
