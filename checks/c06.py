"""C06 -- all ranks issue matching collectives; no layout change can deadlock.

Monitors (from the simulated MPI layer): on-line collective matcher (operation, root, reduction
operator, type signature, counts), logical deadlock detector, unmatched rendezvous at exit, and the
per-rank trace, compared (i) across arrival orders -- depth-first enumeration of ALL arrival orders for
small programs, seeded random otherwise -- and (ii) across interpreter hash seeds (fresh interpreters
with PYTHONHASHSEED=k; soundness: if all ranks match under one common seed and every rank's trace is
the same under every seed, any assignment of seeds to ranks matches).
"""
import json
import os
import random
import shutil
import subprocess
import sys
import tempfile

import numpy as np

from vlib import paths
paths.setup()
from vlib.runner import result, HELD, VIOL, SKIP, INCO  # noqa: E402

ID = "C06"
LEVEL = "exploration"
NEEDS_SIMMPI = True
RULE = ("rank programs on the real code: (a) handler/swapper construction + all ordered transposes incl. multi-step "
        "redirects; (b) Grid.getMin/getMax in every branch (whole grid, one or two fixed axes, index owned by some/no rank, "
        "complex data, plot-only rank with an empty block) and getBlockFromDict/getBlockForFig with ranges inside, straddling "
        "and outside the blocks; (c) DiagnosticCollector.collect/reduce; (d) setupSave with folder given/not given, "
        "existing/new; (e) setupCylindricalGrid and setupFromFile with plotThread=True; (f) the real driver for one step; (g) every test of the repository marked 'parallel' in test_layout, test_grid, test_norms, test_energy, "
        "test_setup, test_saveTools (never collected by the pinned suite) run as a rank program on 2-6 simulated ranks.  "
        "Arrival orders: depth-first enumeration of all orders (bounded at 3000 per program) for 2-3 ranks, 8 (quick) / 64 "
        "(thorough) random seeds otherwise.  Hash seeds: construction + all transposes of layout sets with many tied shortest "
        "routes re-run in fresh interpreters with PYTHONHASHSEED in 0..7 (quick) / 0..47 (thorough); per-rank traces, route "
        "maps and warning sequences compared.  A class is (workload, P, schedule kind | hash-seed sweep).")
ASSUMPTIONS = ["simulated MPI: matching rules never stricter than the MPI standard (self-tested with planted faults)",
               "hash-seed soundness argument as stated in DESIGN.md section 3/C06", "mpio emulation for the driver workload"]
REQUIRED_EVENTS = {"worlds_run": 1, "enumerated_programs": 1, "hash_seeds_compared": 1, "empty_block_rank_runs": 1, "schedules_exhausted": 1, "tied_route_pairs": 1}
CASE_TIMEOUT = {"quick": 900, "thorough": 3000}

UPSTREAM = ["pygyro.model.test_layout", "pygyro.model.test_grid", "pygyro.diagnostics.test_norms", "pygyro.diagnostics.test_energy",
            "pygyro.initialisation.test_setup", "pygyro.utilities.test_saveTools"]
PHYS = {'flux_surface': [0, 3, 1, 2], 'v_parallel': [0, 2, 1, 3], 'poloidal': [3, 2, 1, 0]}


def gen_cases(tier, seed):
    rng = random.Random(60606 + seed)
    cases = []
    nseeds = 8 if tier == "quick" else 64
    # (a) enumerated small programs
    for (P, nprocs, shape) in ((2, [2, 1], [4, 3, 3, 4]), (2, [1, 2], [3, 3, 5, 4]), (3, [3, 1], [5, 3, 4, 5]), (2, [2], [4, 5, 3])):
        cases.append({"kind": "enum", "work": "handler", "P": P, "nprocs": nprocs, "shape": shape, "cap": 2500 if tier == "quick" else 50000, "cost": 3000})
    cases.append({"kind": "enum", "work": "swapper", "P": 2, "p": [2, 1], "shape": [5, 4, 3], "cap": 2500 if tier == "quick" else 50000, "cost": 3000})
    cases.append({"kind": "enum", "work": "minmax", "P": 2, "nprocs": [2, 1], "shape": [4, 3, 3, 4], "cap": 2500 if tier == "quick" else 50000, "cost": 3000})
    cases.append({"kind": "enum", "work": "minmax", "P": 3, "nprocs": [1, 3], "shape": [4, 3, 5, 4], "cap": 2500 if tier == "quick" else 50000, "cost": 3000})
    # seeded random schedules on larger programs
    for work in ("handler", "swapper", "minmax", "blocks", "collector", "setupsave", "plotthread", "plotthread-file"):
        for P in ((2, 4, 6) if tier == "quick" else (2, 3, 4, 6, 8)):
            cases.append({"kind": "random", "work": work, "P": P, "nseeds": nseeds, "seed": rng.randrange(1 << 30), "cost": 500 * P})
    for P in ((2, 3) if tier == "quick" else (2, 3, 4, 6)):
        cases.append({"kind": "random", "work": "driver", "P": P, "nseeds": 2 if tier == "quick" else 8, "seed": rng.randrange(1 << 30), "cost": 6000})
    # (g) the repository's own MPI-marked tests (never collected by the pinned suite) as rank programs
    for mod in UPSTREAM:
        for P in ((2, 3) if tier == "quick" else (2, 3, 4, 6)):
            cases.append({"kind": "upstream", "module": mod, "P": P, "nseeds": 1 if tier == "quick" else 4, "max_items": 6 if tier == "quick" else 10000,
                          "seed": rng.randrange(1 << 30), "cost": 2000})
    # hash seeds
    for k in range(6 if tier == "quick" else 60):
        cases.append({"kind": "hash", "nhash": 8 if tier == "quick" else 48, "seed": rng.randrange(1 << 30), "P": rng.choice([2, 3, 4]), "cost": 4000})
    return cases


# ----------------------------------------------------------------------------------------------------------
# rank programs (all use only the public API of pygyro)

def make_program(work, params):
    from mpi4py import MPI
    from pygyro.model import layout as lay
    from pygyro.model.grid import Grid

    def handler_prog(rank):
        import warnings
        shape, nprocs = params["shape"], params["nprocs"]
        eta = [np.linspace(0, 1, n) for n in shape]
        layouts = params.get("layouts") or ({k: v for k, v in PHYS.items()} if len(shape) == 4 else {'a': [0, 1, 2], 'b': [1, 0, 2], 'c': [2, 1, 0], 'd': [0, 2, 1]})
        with warnings.catch_warnings(record=True) as wl:
            warnings.simplefilter("always")
            h = lay.getLayoutHandler(MPI.COMM_WORLD, dict(layouts), list(nprocs), eta)
            n = h.bufferSize
            a, b, c = np.zeros(n), np.zeros(n), np.zeros(n)
            names_ = list(layouts)
            if params.get("mini"):
                h.transpose(a, b, names_[0], names_[1])
                h.transpose(b, a, names_[1], names_[-1], c)
            else:
                for s in layouts:
                    for d in layouts:
                        h.transpose(a, b, s, d)
                        h.transpose(a, b, s, d, c)
        return [str(x.message) for x in wl]

    def swapper_prog(rank):
        import warnings
        p0, p1 = params["p"]
        shape = params["shape"]
        eta = [np.linspace(0, 1, n) for n in shape]
        groups = [{'v_parallel_2d': [0, 2, 1], 'mode_solve': [1, 2, 0]}, {'v_parallel_1d': [0, 2, 1]}, {'poloidal': [2, 1, 0]}]
        with warnings.catch_warnings(record=True) as wl:
            warnings.simplefilter("always")
            h = lay.LayoutSwapper(MPI.COMM_WORLD, groups, [[p0, p1], p0, p1], eta, 'mode_solve')
            n = h.bufferSize
            a, b, c = np.zeros(n, complex), np.zeros(n, complex), np.zeros(n, complex)
            names = [k for g in groups for k in g]
            if params.get("mini"):
                h.transpose(a, b, 'mode_solve', 'v_parallel_1d')       # gather
                h.transpose(b, a, 'v_parallel_1d', 'v_parallel_2d', c)  # scatter
            else:
                for s in names:
                    for d in names:
                        h.transpose(a, b, s, d)
                        h.transpose(a, b, s, d, c)
        return [str(x.message) for x in wl]

    def minmax_prog(rank):
        comm = MPI.COMM_WORLD
        shape, nprocs = params["shape"], params["nprocs"]
        eta = [np.linspace(0, 1, n) for n in shape]
        h = lay.getLayoutHandler(comm, dict(PHYS), list(nprocs), eta)
        out = []
        if params.get("mini"):
            g = Grid(eta, [None] * 4, h, 'v_parallel', comm, dtype=float)
            g.getAllData()[:] = 1.0 + rank
            out.append(g.getMin(0))
            out.append(g.getMax(comm.Get_size() - 1, 0, shape[0] - 1))
            out.append(g.getMin(0, [0, 2], [0, shape[2] - 1]))
            return len(out)
        for dtype in (float, complex):
            g = Grid(eta, [None] * 4, h, 'v_parallel', comm, dtype=dtype)
            g.getAllData()[:] = np.arange(g.getAllData().size).reshape(g.getAllData().shape) + 100 * rank
            for dr in range(comm.Get_size()):
                out.append(g.getMin(dr))
                out.append(g.getMax(dr))
                for ax in range(4):
                    for fix in (0, shape[ax] // 2, shape[ax] - 1):
                        out.append(g.getMin(dr, ax, fix))
                        out.append(g.getMax(dr, ax, fix))
                out.append(g.getMin(dr, [0, 2], [shape[0] - 1, 0]))
                out.append(g.getMax(dr, [3, 1], [0, shape[1] - 1]))
            g.setLayout('poloidal')
            out.append(g.getMin(0, 0, 0))
        return len(out)

    def blocks_prog(rank):
        comm = MPI.COMM_WORLD
        shape, nprocs = params["shape"], params["nprocs"]
        eta = [np.linspace(0, 1, n) for n in shape]
        h = lay.getLayoutHandler(comm, dict(PHYS), list(nprocs), eta)
        n = 0
        for dtype in (float, complex):
            g = Grid(eta, [None] * 4, h, 'v_parallel', comm, dtype=dtype, allocateSaveMemory=True)
            g.getAllData()[:] = 1.0 + rank
            # layout changes of a grid that owns save memory (real and complex), without and with a held save
            for lay_ in ('flux_surface', 'poloidal', 'v_parallel'):
                g.setLayout(lay_)
            g.saveGridValues()
            g.setLayout('poloidal')
            g.setLayout('flux_surface')
            g.restoreGridValues()
            for root in range(comm.Get_size()):
                dicts = [{}, {0: 0}, {0: shape[0] - 1, 2: 1}, {3: range(0, shape[3])}, {0: range(1, shape[0]), 2: range(0, max(1, shape[2] // 2))},
                         {2: range(shape[2] - 1, shape[2])}, {1: 0, 3: shape[3] - 1}]
                for d in dicts:
                    r = g.getBlockFromDict(d, comm, root)
                    n += 1
                    if (r is not None) != (comm.Get_rank() == root):
                        raise AssertionError("getBlockFromDict returned data on a non-root rank or nothing on the root")
            # figure communicators that are NOT the grid's own communicator: halves of the world (when it has >= 4 ranks),
            # numbered in the opposite order to the world
            sub = comm.Split(rank % 2 if comm.Get_size() >= 4 else 0, -rank)
            for root in range(sub.Get_size()):
                for d in ({}, {0: 0}, {0: shape[0] - 1, 2: 1}, {3: range(0, shape[3])}):
                    r = g.getBlockFromDict(d, sub, root)
                    n += 1
                    if (r is not None) != (sub.Get_rank() == root):
                        raise AssertionError("getBlockFromDict on a sub-communicator returned data on a non-root rank or nothing on its root")
        return n

    def collector_prog(rank):
        from vlib import simrun
        from pygyro.diagnostics.diagnostic_collector import DiagnosticCollector
        comm = MPI.COMM_WORLD
        c = simrun.small_constants(params["npts"], seed=3, dt=2)
        sim = simrun.Sim(comm, c, params["nprocs"], layout='v_parallel', save=False)
        sim.f.getAllData()[:] = 1.0 + rank
        sim.phi.setLayout('v_parallel_2d')
        sim.phi.getAllData()[:] = 2.0
        d = DiagnosticCollector(comm, params["saveStep"], 2, sim.f, sim.phi)
        for t in (0, 2, 4, 6):
            d.collect(sim.f, sim.phi, t)
            if (t // 2) % params["saveStep"] == params["saveStep"] - 1:
                d.reduce()
        d.reduce()
        return True

    def setupsave_prog(rank):
        from vlib import simrun
        from pygyro.utilities.savingTools import setupSave
        comm = MPI.COMM_WORLD
        c = simrun.small_constants([6, 6, 7, 6], seed=1)
        base = params["tmp"]
        names = []
        names.append(setupSave(c, os.path.join(base, "given_new")))
        names.append(setupSave(c, os.path.join(base, "given_new")))          # exists now
        names.append(setupSave(c, None))
        names.append(setupSave(c, None))
        names.append(setupSave(c, None, comm, root=comm.Get_size() - 1))
        return names

    def plotthread_prog(rank):
        from pygyro.initialisation import setups
        comm = MPI.COMM_WORLD
        draw = params["draw"]
        if params.get("folder"):
            grid, c, t = setups.setupFromFile(params["folder"], comm=comm, plotThread=True, drawRank=draw, layout='v_parallel', allocateSaveMemory=True)
        else:
            grid, c, t = setups.setupCylindricalGrid('v_parallel', constantFile=params["cfile"], comm=comm, plotThread=True, drawRank=draw, allocateSaveMemory=True)
        empty = grid.getAllData().size == 0
        if empty != (rank == draw):
            raise AssertionError("exactly the drawing rank must own an empty block")
        for lay_ in ('flux_surface', 'poloidal', 'v_parallel'):
            grid.setLayout(lay_)
            grid.getMin(draw)
            grid.getMax(draw, 0, 0)
            grid.getMax(draw, [0, 3], [1, 2])
            # what the plotting loop does: every rank (the drawing one with its empty block included) gathers on the drawing rank
            for d in ({0: 0}, {3: 1, 2: 0}, {1: 2}):
                r = grid.getBlockFromDict(d, comm, draw)
                if (r is not None) != (rank == draw):
                    raise AssertionError("getBlockFromDict: exactly the drawing rank must receive the slice")
        grid.saveGridValues()
        grid.setLayout('poloidal')
        grid.restoreGridValues()
        return empty

    return {"handler": handler_prog, "swapper": swapper_prog, "minmax": minmax_prog, "blocks": blocks_prog, "collector": collector_prog,
            "setupsave": setupsave_prog, "plotthread": plotthread_prog, "plotthread-file": plotthread_prog}[work]


def _trace_key(w):
    return [[(t[0], t[1], t[2], json.dumps(t[3], sort_keys=True, default=str)) for t in tr] for tr in w.trace]


def _judge(w, what):
    from mpi4py import MPI
    err = w.first_error()
    if err is not None:
        kind = "deadlock" if isinstance(err[1], MPI.Deadlock) else ("mismatch" if isinstance(err[1], MPI.CollectiveMismatch) else "exception:" + type(err[1]).__name__)
        return ("C06:%s/%s" % (kind, what.split("/")[0]), "%s: rank %d: %r" % (what, err[0], err[1]), (w.tracebacks[err[0]] or "")[-2000:])
    if w.unmatched():
        return ("C06:unmatched-collective/%s" % what.split("/")[0], "%s: rendezvous left incomplete at exit: %r" % (what, w.unmatched()[:3]), None)
    return None


def run_case(case):
    from pygyro.model import layout as lay
    paths.assert_repo(lay)
    if case["kind"] == "enum":
        return _enum(case)
    if case["kind"] == "random":
        return _random(case)
    if case["kind"] == "upstream":
        return _upstream(case)
    return _hash(case)


def _expand_marks(fn):
    """parameter sets of a test function marked 'parallel' (pytest marks read directly; no pytest run)"""
    marks = list(getattr(fn, "pytestmark", []))
    if not any(m.name == "parallel" for m in marks):
        return []
    combos = [{}]
    for m in marks:
        if m.name != "parametrize":
            continue
        names = [n.strip() for n in m.args[0].split(",")] if isinstance(m.args[0], str) else list(m.args[0])
        new = []
        for c in combos:
            for v in m.args[1]:
                v = getattr(v, "values", v)
                vals = tuple(v) if len(names) > 1 else ((v[0],) if isinstance(v, tuple) and hasattr(v, "_fields") else (v,))
                new.append(dict(c, **dict(zip(names, vals))))
        combos = new
    return combos


def _upstream(case):
    """The repository's own multi-rank tests run as rank programs on P simulated ranks under seeded arrival
    orders.  Only what the simulated MPI layer itself reports (mismatch, deadlock, unmatched rendezvous) is a
    C06 verdict; an assertion of the upstream test failing is reported as inconclusive, with the message."""
    import importlib
    from mpi4py import MPI
    from vlib import simh5
    simh5.install()
    random.seed(case["seed"])
    np.random.seed(case["seed"] % (1 << 31))
    mod = importlib.import_module(case["module"])
    paths.assert_repo(mod)
    P = case["P"]
    items = []
    for name in sorted(dir(mod)):
        fn = getattr(mod, name)
        if name.startswith("test_") and callable(fn):
            for params in _expand_marks(fn):
                items.append((name, fn, params))
    rng = random.Random(case["seed"])
    if len(items) > case["max_items"]:
        items = rng.sample(items, case["max_items"])
    short = case["module"].split(".")[-1]
    what = "upstream-%s/P%d/random" % (short, P)
    ev = {"worlds_run": 0, "enumerated_programs": 0, "schedules_exhausted": 0, "hash_seeds_compared": 0, "empty_block_rank_runs": 0, "upstream_tests_run": 0, "upstream_assertion_failures": 0}
    if not items:
        return result(SKIP, what="no test marked 'parallel' found in %s" % case["module"])
    tmp = tempfile.mkdtemp(prefix="verif_c06u_")
    old = os.getcwd()
    sigs = set()
    notes = []
    try:
        for name, fn, params in items:
            for s in range(case["nseeds"]):
                d = os.path.join(tmp, "w")
                shutil.rmtree(d, ignore_errors=True)
                os.makedirs(d)
                os.chdir(d)
                w = MPI.run_world(P, lambda rank, fn=fn, params=params: fn(**params), schedule="random" if s else "reversed", seed=case["seed"] + s, timeout=600)
                os.chdir(old)
                ev["worlds_run"] += 1
                ev["upstream_tests_run"] += 1
                for k, v in w.events.items():
                    ev[k] = ev.get(k, 0) + v
                err = w.first_error()
                label = "%s/%s%s" % (what, name, ("[%s]" % ",".join("%s=%r" % kv for kv in sorted(params.items()))) if params else "")
                if err is not None and not isinstance(err[1], MPI.SimError):
                    ev["upstream_assertion_failures"] += 1
                    notes.append("%s: rank %d: %s: %s" % (label, err[0], type(err[1]).__name__, str(err[1])[:300]))
                    continue
                bad = _judge(w, label)
                if bad:
                    return result(VIOL, cls=[what], events=ev, key="C06:%s/upstream-test" % bad[0].split(":")[1].split("/")[0], what=bad[1],
                                  witness={"case": case, "test": name, "params": repr(params), "sched_seed": case["seed"] + s, "traceback": bad[2]})
                sigs.add(hash(w.arrival_signature()))
        if notes and ev["upstream_tests_run"] == ev["upstream_assertion_failures"]:
            return result(SKIP, cls=[what], events=ev, what="every upstream test stopped at one of its own assertions under %d simulated ranks (not a C06 verdict): %s" % (P, " || ".join(notes[:3])))
        # runs that stopped at an assertion of the upstream test itself (e.g. pytest.warns, whose warning filter state is
        # process-global and therefore shared by simulated ranks) carry no C06 verdict; they are counted and listed
        return result(HELD, cls=[what], events=ev, n_eval=ev["upstream_tests_run"] - ev["upstream_assertion_failures"], sched=["%s:%d" % (what, x) for x in sigs],
                      extra={"upstream_assertion_notes": notes[:5]} if notes else None)
    finally:
        os.chdir(old)
        shutil.rmtree(tmp, ignore_errors=True)


def _params_for(case, tmp=None):
    from pygyro.model.process_grid import compute_2d_process_grid
    work, P = case["work"], case["P"]
    if "nprocs" in case or "p" in case:
        d = {k: case[k] for k in ("shape", "nprocs", "p") if k in case}
        d["mini"] = case["kind"] == "enum"
        return d
    rng = random.Random(case.get("seed", 0))
    if work in ("handler", "minmax", "blocks"):
        shape = [rng.randint(4, 7) for _ in range(4)]
        cands = [(a, P // a) for a in range(1, P + 1) if P % a == 0 and a <= min(shape[0], shape[3]) and P // a <= min(shape[2], shape[3])]
        if not cands:
            return None
        return {"shape": shape, "nprocs": list(rng.choice(cands))}
    if work == "swapper":
        shape = [rng.randint(5, 8) for _ in range(3)]
        cands = [(a, P // a) for a in range(1, P + 1) if P % a == 0 and a <= min(shape) and P // a <= min(shape)]
        return {"shape": shape, "p": list(rng.choice(cands))} if cands else None
    if work == "collector":
        npts = [rng.randint(6, 8), rng.randint(6, 8), rng.randint(7, 8), rng.randint(6, 8)]
        cands = [(a, P // a) for a in range(1, P + 1) if P % a == 0 and a <= min(npts[0], npts[3], npts[1]) and P // a <= min(npts[2], npts[3])]
        return {"npts": npts, "nprocs": list(rng.choice(cands)), "saveStep": rng.randint(1, 3)} if cands else None
    if work == "setupsave":
        return {"tmp": tmp}
    if work in ("plotthread", "plotthread-file"):
        from vlib import driver_run as dr
        npts = [rng.randint(6, 8), rng.randint(6, 8), rng.randint(7, 8), rng.randint(6, 8)]
        try:
            compute_2d_process_grid(npts, P - 1)
        except RuntimeError:
            return None
        cfile = os.path.join(tmp, "c.json")
        dr.write_constants(cfile, npts, dt=2)
        out = {"cfile": cfile, "draw": rng.randrange(P), "npts": npts}
        if work == "plotthread-file":
            import h5py
            folder = os.path.join(tmp, "sim")
            os.makedirs(folder, exist_ok=True)
            shutil.copy(cfile, os.path.join(folder, "initParams.json"))
            opener = getattr(h5py, "_verif_real_File", None) or h5py.File
            with opener(os.path.join(folder, "grid_000004.h5"), "w") as f:
                d = f.create_dataset("dset", [npts[i] for i in [0, 2, 1, 3]], dtype=float)
                d[...] = 1.5
                d.attrs.create("Layout", np.array([0, 2, 1, 3]), (4,), h5py.h5t.STD_I32BE)
            out["folder"] = folder
        return out
    return {}


def _enum(case):
    from mpi4py import MPI
    params = _params_for(case)
    prog = make_program(case["work"], params)
    P = case["P"]
    choices = []
    n_runs = 0
    traces0 = None
    sigs = set()
    ev = {"worlds_run": 0, "enumerated_programs": 1, "schedules_exhausted": 0, "hash_seeds_compared": 0, "empty_block_rank_runs": 0}
    what = "%s/P%d/enumerated" % (case["work"], P)
    while True:
        w = MPI.run_world(P, prog, choices=choices, timeout=120)
        n_runs += 1
        ev["worlds_run"] += 1
        for k, v in w.events.items():
            ev[k] = ev.get(k, 0) + v
        bad = _judge(w, what)
        if bad:
            return result(VIOL, cls=[what], events=ev, key=bad[0], what=bad[1] + " [arrival choices %r]" % (choices,), witness={"case": case, "choices": list(choices), "traceback": bad[2]}, n_eval=n_runs)
        tk = _trace_key(w)
        if traces0 is None:
            traces0 = tk
        elif tk != traces0:
            # every run is judged by the matcher on its own; a sequence that varies with the arrival order but always matches is
            # not a violation of the property -- it is only counted (and makes the "all orders explored" claim weaker)
            ev["runs_whose_trace_differs_from_first_order"] = ev.get("runs_whose_trace_differs_from_first_order", 0) + 1
        sigs.add(hash(w.arrival_signature()))
        # next schedule in depth-first order
        log = list(w.choice_log)
        k = len(log) - 1
        while k >= 0 and log[k][1] >= log[k][0] - 1:
            k -= 1
        if k < 0:
            ev["schedules_exhausted"] = 1
            break
        choices = [i for (_n, i) in log[:k]] + [log[k][1] + 1]
        if n_runs >= case["cap"]:
            break
    return result(HELD, cls=[what + ("/all-orders" if ev["schedules_exhausted"] else "/capped")], events=ev, n_eval=n_runs,
                  sched=["%s:%d" % (what, s) for s in sigs], extra={"distinct_arrival_orders": len(sigs), "exhausted": bool(ev["schedules_exhausted"])})


def _random(case):
    from mpi4py import MPI
    work, P = case["work"], case["P"]
    tmp = tempfile.mkdtemp(prefix="verif_c06_")
    ev = {"worlds_run": 0, "enumerated_programs": 0, "schedules_exhausted": 0, "hash_seeds_compared": 0, "empty_block_rank_runs": 0}
    what = "%s/P%d/random" % (work, P)
    old = os.getcwd()
    try:
        if work == "driver":
            from vlib import driver_run as dr
            cfile = os.path.join(tmp, "c.json")
            dr.write_constants(cfile, [8, 8, 8, 8], dt=2)
            sigs = set()
            for s in range(case["nseeds"]):
                w = dr.run_driver(P, [2, 100000, "-c", cfile, "-f", os.path.join(tmp, "out%d" % s), "-s", 2], os.path.join(tmp, "cwd%d" % s),
                                  sched=["random", "reversed", "rotate"][s % 3], seed=case["seed"] + s, timeout=800)
                ev["worlds_run"] += 1
                for k, v in w.events.items():
                    ev[k] = ev.get(k, 0) + v
                bad = _judge(w, what)
                if bad:
                    return result(VIOL, cls=[what], events=ev, key=bad[0], what=bad[1], witness={"case": case, "sched_seed": case["seed"] + s, "traceback": bad[2]})
                sigs.add(hash(w.arrival_signature()))
            return result(HELD, cls=[what], events=ev, n_eval=case["nseeds"], sched=["%s:%d" % (what, x) for x in sigs])
        from vlib import simh5
        simh5.install()
        os.chdir(tmp)
        params = _params_for(case, tmp)
        if params is None:
            return result(SKIP, what="no admissible configuration for %s on %d ranks" % (work, P))
        prog = make_program(work, params)
        traces0 = None
        sigs = set()
        for s in range(case["nseeds"]):
            if work == "setupsave":
                for d in os.listdir(tmp):
                    if d.startswith("simulation_") or d == "given_new":
                        shutil.rmtree(os.path.join(tmp, d), ignore_errors=True)
            sched = ["random", "identity", "reversed", "rotate"][s % 4] if s < 4 else "random"
            w = MPI.run_world(P, prog, schedule=sched, seed=case["seed"] + s, timeout=400)
            ev["worlds_run"] += 1
            for k, v in w.events.items():
                ev[k] = ev.get(k, 0) + v
            bad = _judge(w, what)
            if bad:
                return result(VIOL, cls=[what], events=ev, key=bad[0], what=bad[1] + " [schedule %s seed %d, params %r]" % (sched, case["seed"] + s, {k: v for k, v in params.items() if k != "tmp"}),
                              witness={"case": case, "sched": sched, "sched_seed": case["seed"] + s, "traceback": bad[2]})
            if work in ("plotthread", "plotthread-file"):
                ev["empty_block_rank_runs"] += 1
            if work == "setupsave":
                names = w.results
                if any(n != names[0] for n in names):
                    return result(VIOL, cls=[what], events=ev, key="C06:setupSave-folder-differs-between-ranks", what="setupSave returned different folders on different ranks: %r" % (names,), witness={"case": case})
            tk = _trace_key(w)
            if traces0 is None:
                traces0 = tk
            elif tk != traces0:
                ev["runs_whose_trace_differs_from_first_order"] = ev.get("runs_whose_trace_differs_from_first_order", 0) + 1
            sigs.add(hash(w.arrival_signature()))
        return result(HELD, cls=[what], events=ev, n_eval=case["nseeds"], sched=["%s:%d" % (what, x) for x in sigs])
    finally:
        os.chdir(old)
        shutil.rmtree(tmp, ignore_errors=True)


# ----------------------------------------------------------------------------------------------------------
# hash-seed sweep

def _compatible(nprocs, a, b):
    return sum(1 for i, n in enumerate(nprocs) if n > 1 and a[i] != b[i]) < 2


def _tie_stats(nprocs, layouts):
    """(connected?, number of ordered pairs with >= 2 distinct shortest routes)"""
    names = list(layouts)
    adj = {u: [v for v in names if v != u and _compatible(nprocs, layouts[u], layouts[v])] for u in names}
    ties = 0
    for s_ in names:
        dist = {s_: 0}
        cnt = {s_: 1}
        frontier = [s_]
        while frontier:
            nxt = []
            for u in frontier:
                for v in adj[u]:
                    if v not in dist:
                        dist[v] = dist[u] + 1
                        cnt[v] = cnt[u]
                        nxt.append(v)
                    elif dist[v] == dist[u] + 1:
                        cnt[v] += cnt[u]
            frontier = nxt
        if len(dist) < len(names):
            return False, 0
        ties += sum(1 for v in names if v != s_ and cnt[v] > 1)
    return True, ties


def _tied_layout_set(rng, nprocs):
    """connected layout sets (random names, random insertion order) whose connection graph has many tied
    shortest routes: the situation in which the route search has to break ties deterministically"""
    import itertools
    nd = 4 if len(nprocs) == 3 else rng.choice([3, 4, 4])
    perms = list(itertools.permutations(range(nd)))
    best = None
    for _try in range(200):
        k = min(rng.randint(5, 7), len(perms))
        names = ["".join(rng.choice("abcdefghijklmnopqrstuvwxyz") for _ in range(rng.randint(3, 7))) for _ in range(k)]
        if len(set(names)) < k:
            continue
        chosen = rng.sample(perms, k)
        lays = {n: list(p) for n, p in zip(names, chosen)}
        ok, ties = _tie_stats(nprocs, lays)
        if ok and (best is None or ties > best[0]):
            best = (ties, lays)
            if ties >= 6:
                break
    if best is None:
        return nd, None, 0
    return nd, best[1], best[0]


def hash_worker(spec):
    """runs in a fresh interpreter with a given PYTHONHASHSEED: prints per-rank traces, route maps, warnings"""
    import warnings
    from mpi4py import MPI
    from pygyro.model import layout as lay
    P, nprocs, shape, layouts = spec["P"], spec["nprocs"], spec["shape"], spec["layouts"]
    eta = [np.linspace(0, 1, n) for n in shape]

    def prog(rank):
        with warnings.catch_warnings(record=True) as wl:
            warnings.simplefilter("always")
            try:
                h = lay.getLayoutHandler(MPI.COMM_WORLD, dict(layouts), list(nprocs), eta)
            except RuntimeError as e:
                return {"refused": str(e)}
            n = h.bufferSize
            a, b, c = np.zeros(n), np.zeros(n), np.zeros(n)
            for s in layouts:
                for d in layouts:
                    h.transpose(a, b, s, d)
                    h.transpose(a, b, s, d, c)
            routes = None
            try:
                routes = {s: {d: list(v) for d, v in m.items()} for s, m in h._route_map.items()}
            except AttributeError:
                pass
        return {"warnings": [str(x.message) for x in wl], "routes": routes}
    w = MPI.run_world(P, prog, schedule="random", seed=spec["sched_seed"], timeout=300)
    err = w.first_error()
    out = {"error": None if err is None else "rank %d: %r" % (err[0], err[1]), "traces": _trace_key(w), "results": w.results, "unmatched": w.unmatched()}
    print("@@RESULT@@" + json.dumps(out, default=str))


def _hash(case):
    rng = random.Random(case["seed"])
    P = case["P"]
    nprocs = rng.choice([[2, 2], [2, 3], [3, 2], [2, 2, 2]])
    P = int(np.prod(nprocs))
    nd, layouts, nties = _tied_layout_set(rng, nprocs)
    if layouts is None:
        return result(SKIP, what="no connected layout set with ties found")
    shape = [rng.randint(max(nprocs), max(nprocs) + 2) for _ in range(nd)]
    spec = {"P": P, "nprocs": nprocs, "shape": shape, "layouts": layouts, "sched_seed": case["seed"] % 1000}
    ev = {"worlds_run": 0, "enumerated_programs": 0, "schedules_exhausted": 0, "hash_seeds_compared": 0, "empty_block_rank_runs": 0}
    what = "hash-seeds/grid%s/nd%d/%dlayouts/%s" % ("x".join(map(str, nprocs)), nd, len(layouts), "tied-routes" if nties else "no-ties")
    ev_ties = nties
    ref = None
    for hs in range(case["nhash"]):
        env = dict(os.environ)
        env["PYTHONHASHSEED"] = str(hs)
        env["VERIF_C06_SPEC"] = json.dumps(spec)
        try:
            cp = subprocess.run([sys.executable, "-c", "import json,os;from checks import c06;c06.hash_worker(json.loads(os.environ['VERIF_C06_SPEC']))"],
                                cwd=paths.VERIF, env=env, capture_output=True, text=True, timeout=400)
        except subprocess.TimeoutExpired:
            return result(INCO, what="hash-seed worker timed out")
        line = next((ln for ln in cp.stdout.splitlines() if ln.startswith("@@RESULT@@")), None)
        if line is None:
            return result(INCO, what="hash-seed worker produced no result: %s" % cp.stderr[-500:])
        out = json.loads(line[len("@@RESULT@@"):])
        ev["worlds_run"] += 1
        ev["hash_seeds_compared"] += 1
        if out["error"] or out["unmatched"]:
            return result(VIOL, cls=[what], events=ev, key="C06:hash-seed/collective-error", what="PYTHONHASHSEED=%d: %s %r (layouts %r, nprocs %r)" % (hs, out["error"], out["unmatched"], layouts, nprocs),
                          witness={"case": case, "spec": spec, "hashseed": hs})
        if any("refused" in (r or {}) for r in out["results"]):
            if not all("refused" in (r or {}) for r in out["results"]):
                return result(VIOL, cls=[what], events=ev, key="C06:hash-seed/inconsistent-refusal", what="layout set refused on some ranks only", witness={"case": case, "spec": spec})
            if ref is None:
                ref = "refused"
            elif ref != "refused":
                return result(VIOL, cls=[what], events=ev, key="C06:hash-seed/refusal-depends-on-seed", what="layout set refused under PYTHONHASHSEED=%d but not under 0" % hs, witness={"case": case, "spec": spec})
            continue
        cur = (out["traces"], [r["warnings"] for r in out["results"]], [r["routes"] for r in out["results"]])
        if ref is None:
            ref = cur
        elif ref == "refused" or cur != ref:
            which = "collective trace" if ref == "refused" or cur[0] != ref[0] else ("warning sequence" if cur[1] != ref[1] else "route map")
            return result(VIOL, cls=[what], events=ev, key="C06:hash-seed/%s-differs" % which.replace(" ", "-"),
                          what="per-rank %s under PYTHONHASHSEED=%d differs from PYTHONHASHSEED=0 (layouts %r, nprocs %r): ranks in separate interpreters could pick different routes"
                          % (which, hs, layouts, nprocs), witness={"case": case, "spec": spec, "hashseed": hs})
    ev["tied_route_pairs"] = ev_ties
    return result(HELD, cls=[what + ("/refused" if ref == "refused" else "")], events=ev, n_eval=case["nhash"])
