"""C14 -- the elliptic solver returns the per-mode Galerkin solution of the radial equation.

Oracle: independent dense assembly (vlib.refmath.galerkin_radial: Cox-de Boor basis values and
derivatives at Gauss-Legendre points, dense solve) of the weak form on the clamped spline space of
the same breakpoints with the same quadrature rule; right-hand side = reference interpolant of the
discrete rho (or quadrature of the callable rho).  Consequences checked on the real code: linearity,
manufactured polynomial solutions, zero at Dirichlet boundaries, mode independence, refusal of the
ill-posed pure-Neumann problem.
"""
import random
from math import pi

import numpy as np

from vlib import paths
paths.setup()
from vlib.runner import result, HELD, VIOL, SKIP, INCO  # noqa: E402
from vlib import refmath as rm  # noqa: E402
from vlib import layout_oracle as lo  # noqa: E402

ID = "C14"
LEVEL = "exploration"
NEEDS_SIMMPI = True
RULE = ("seeded problems: radial spline degree 1-5 (3 = uniform-cubic space), 2-40 uniform cells, quadrature exactness "
        "parameter in {p, 2p, 2p+2, 7}, A in {-1, other constants}, smooth random coefficient functions B,C,D,E (E of overall magnitude 1, 1e-6, 1e-12 or 1e4), "
        "Dirichlet/Neumann choice per mode at either boundary, n_theta even/odd (4-9), 1-3 z positions, random complex "
        "discrete right-hand sides; mode_solve-type layouts on 1-4 simulated ranks.  Every (mode, z) radial profile of the "
        "phi grid compared with the dense reference; identities on the real code (linearity, Dirichlet zeros, mode "
        "independence); manufactured polynomial solutions through solveEquationForFunction; both-Neumann with C=0 must "
        "raise ValueError.  A class is (degree, space, A class, boundary pattern of the mode, P, monitor).  Problems with "
        "cond(K) > 1e10 are skipped and counted.")
ASSUMPTIONS = ["reference: dense Galerkin assembly from the weak form stated in the property, same breakpoints and Gauss-Legendre rule",
               "radial breakpoints uniform (as every pygyro set-up builds them)", "simulated MPI for the distributed layouts (self-tested)",
               "tolerance 1000*eps*cond(K)*kappa(interp)*scale"]
REQUIRED_EVENTS = {"profiles_compared": 1, "identity_checks": 1, "manufactured_profiles": 1, "illposed_refused": 1, "neumann_modes": 1}
C = 1000.0


def gen_cases(tier, seed):
    rng = random.Random(141414 + seed)
    cases = []
    for k in range(90 if tier == "quick" else 3000):
        p = rng.choice([1, 2, 3, 3, 3, 4, 5])
        nc = rng.choice([2, 3, 4, rng.randint(2, 12), rng.randint(2, 40)])
        nth = rng.randint(4, 9)
        if k % 6 == 5:
            # theta counts n for which n*(1/n) != 1 in floating point (49, 98, 103, 107, ...): mode numbers derived through a
            # frequency spacing 1/n are then not exact integers
            nth = 49 if tier == "quick" else rng.choice([49, 49, 98, 103, 107])
        P = rng.choice([1, 1, 2, 3, 4])
        cases.append({"kind": "solve", "p": p, "ncells": nc, "nth": nth, "nz": rng.randint(1, 3), "P": P, "quad": rng.choice([p, 2 * p, 2 * p + 2, 7]),
                      "A": rng.choice([-1.0, -1.0, 2.5, -0.3]), "seed": rng.randrange(1 << 30), "cost": nc * nth * 3})
    for k in range(40 if tier == "quick" else 1200):
        p = rng.choice([1, 2, 3, 3, 4, 5])
        cases.append({"kind": "manufactured", "p": p, "ncells": rng.randint(2, 12), "nth": rng.randint(4, 7), "A": rng.choice([-1.0, 1.7]),
                      "bc": rng.choice(["DD", "ND", "DN"]), "seed": rng.randrange(1 << 30), "cost": 30})
    for k in range(6 if tier == "quick" else 60):
        cases.append({"kind": "illposed", "p": rng.choice([1, 2, 3, 4]), "ncells": rng.randint(2, 8), "nth": rng.randint(4, 7), "seed": rng.randrange(1 << 30), "cost": 5})
    return cases


class _Coef:
    """smooth coefficient functions, reproducible from a seed, picklable by seed"""

    def __init__(self, seed, a, b):
        rs = np.random.RandomState(seed)
        self.k = rs.uniform(-1, 1, (4, 3))
        self.a, self.b = a, b
        self.int_first = bool(seed % 3 == 0)
        # overall magnitude of the right-hand-side factor E: the solution must scale with it (no absolute thresholds)
        self.escale = float(10.0 ** [0, 0, 0, -6, -12, 4][seed % 6])

    def _f(self, i, r, base):
        t = (r - self.a) / (self.b - self.a)
        return base + self.k[i, 0] * t + self.k[i, 1] * t * t + 0.3 * self.k[i, 2] * np.sin(3 * t)

    def B(self, r):
        return self._f(0, r, 0.2)

    def Cc(self, r):
        return self._f(1, r, 1.5)

    def D(self, r):
        # piecewise: a plain Python int on the inner third of the domain (the first points the solver samples), floats elsewhere
        if self.int_first and r < self.a + (self.b - self.a) / 3:
            return -1
        return -abs(self._f(2, r, 1.0)) - 0.2

    def E(self, r):
        return self.escale * self._f(3, r, 2.0)


def _space(spl, p, ncells, a, b):
    breaks = np.linspace(a, b, ncells + 1)
    knots = spl.make_knots(breaks, p, False)
    return spl.BSplines(knots, p, False, True), breaks


def run_case(case):
    import pygyro.splines as spl
    from pygyro.poisson import poisson_solver as ps
    paths.assert_repo(ps)
    if case["kind"] == "solve":
        return _solve_case(case, spl, ps)
    if case["kind"] == "manufactured":
        return _manufactured_case(case, spl, ps)
    return _illposed_case(case, spl, ps)


def _grids(MPI, comm, eta, nprocs):
    from pygyro.model.layout import getLayoutHandler
    from pygyro.model.grid import Grid
    h = getLayoutHandler(comm, {'mode_solve': [1, 2, 0], 'v_parallel_2d': [0, 2, 1]}, list(nprocs), eta)
    phi = Grid(eta, [None] * 3, h, 'mode_solve', comm, dtype=np.complex128)
    rho = Grid(eta, [None] * 3, h, 'mode_solve', comm, dtype=np.complex128)
    return phi, rho


def _solve_case(case, spl, ps):
    from mpi4py import MPI
    rng = random.Random(case["seed"])
    rs = np.random.RandomState(case["seed"] % (1 << 31))
    p, nc, nth, nz, P = case["p"], case["ncells"], case["nth"], case["nz"], case["P"]
    a = rng.uniform(0.1, 2.0)
    b = a + rng.uniform(1.0, 12.0)
    rspline, breaks = _space(spl, p, nc, a, b)
    r = np.asarray(rspline.greville, dtype=float)
    nr = len(r)
    eta = [r, np.linspace(0, 2 * pi, nth, endpoint=False), np.linspace(0, 1, nz + 1)[:-1] if nz > 1 else np.array([0.0])]
    # process grid: theta-modes over p0, z over p1
    nprocs = [P, 1] if P <= nth else [1, 1]
    if rng.random() < 0.4 and nz >= 2 and P in (2, 4):
        nprocs = [P // 2, 2]
    if nprocs[0] > min(nth, nr) or nprocs[1] > nz:
        nprocs = [1, 1]
    Pn = nprocs[0] * nprocs[1]
    co = _Coef(case["seed"] % 100000, a, b)
    A = case["A"]
    modes = [int(m) for m in np.rint(np.fft.fftfreq(nth) * nth)]
    lN = sorted(set(rng.sample(modes, rng.randint(0, min(3, len(modes))))))
    uN = sorted(set(rng.sample(modes, rng.randint(0, min(2, len(modes))))))
    RHO = rs.standard_normal((nr, nth, nz)) + 1j * rs.standard_normal((nr, nth, nz))
    RHO2 = rs.standard_normal((nr, nth, nz)) + 1j * rs.standard_normal((nr, nth, nz))
    # magnitude classes of the right-hand side (the map rho -> phi is linear: no absolute thresholds): everything tiny, or one
    # weak mode and one weak axial plane next to O(1) data
    rkind = case["seed"] % 5
    if rkind == 1:
        RHO, RHO2 = RHO * 1e-9, RHO2 * 1e-9
    elif rkind == 2:
        RHO, RHO2 = RHO * 1e-13, RHO2 * 1e-13
    elif rkind == 3:
        RHO[:, 2 % nth, :] *= 1e-10
        RHO[:, :, nz - 1] *= 1e-11
    al, be = complex(rs.uniform(-2, 2), rs.uniform(-1, 1)), float(rs.uniform(-2, 2))
    quad = case["quad"]

    def prog(rank):
        comm = MPI.COMM_WORLD
        phi, rho = _grids(MPI, comm, eta, nprocs)
        # a coefficient may arrive already wrapped by np.vectorize (without output type): it must be treated like the plain function
        Dfun = np.vectorize(co.D) if (co.int_first and case["seed"] % 2 == 0) else co.D
        solver = ps.DiffEqSolver(quad, rspline, nr, nth, lNeumannIdx=list(lN), uNeumannIdx=list(uN),
                                 ddrFactor=lambda x: A, drFactor=co.B, rFactor=co.Cc, ddThetaFactor=Dfun, rhoFactor=co.E)
        # a second live solver with other boundary conditions / degree of exactness (never used): must not influence the first
        decoy = ps.DiffEqSolver(max(1, quad - 1), rspline, nr, nth, lNeumannIdx=list(uN), uNeumannIdx=[], ddrFactor=lambda x: -2.0,
                                rFactor=lambda x: 1.0)
        L = rho.getLayout('mode_solve')
        out = []
        for R in (RHO, RHO2, al * RHO + be * RHO2):
            rho.getAllData()[:] = lo.expected_block(R, L)
            phi.getAllData()[:] = np.nan
            solver.solveEquation(phi, rho)
            out.append((tuple(L.dims_order), [int(x) for x in L.starts], [int(x) for x in L.ends], np.array(phi.getAllData(), copy=True)))
        # mode independence: change rho in one mode only
        R3 = RHO.copy()
        mchg = 1 % nth
        R3[:, mchg, :] += (1.0 + 2.0j) * float(np.abs(RHO).max())
        rho.getAllData()[:] = lo.expected_block(R3, L)
        phi.getAllData()[:] = np.nan
        solver.solveEquation(phi, rho)
        out.append((tuple(L.dims_order), [int(x) for x in L.starts], [int(x) for x in L.ends], np.array(phi.getAllData(), copy=True)))
        # history: the other entry point in between, then the very first right-hand side again -> the same result (up to rounding) expected
        phi.getAllData()[:] = np.nan
        solver.solveEquationForFunction(phi, lambda x: 1.0 + 0.3 * x)
        out.append((tuple(L.dims_order), [int(x) for x in L.starts], [int(x) for x in L.ends], np.array(phi.getAllData(), copy=True)))
        rho.getAllData()[:] = lo.expected_block(RHO, L)
        phi.getAllData()[:] = np.nan
        solver.solveEquation(phi, rho)
        out.append((tuple(L.dims_order), [int(x) for x in L.starts], [int(x) for x in L.ends], np.array(phi.getAllData(), copy=True)))
        return out

    w = MPI.run_world(Pn, prog, schedule="random", seed=case["seed"], timeout=500)
    ev = dict(w.events)
    err = w.first_error()
    wit = {"case": case, "a": a, "b": b, "lN": lN, "uN": uN, "nprocs": nprocs}
    space = "fast" if rspline.cubic_uniform else "general"
    base = "p%d/%s/A%s/P%d" % (p, space, "-1" if A == -1.0 else "other", Pn)
    if err is not None:
        wit["traceback"] = (w.tracebacks[err[0]] or "")[-2500:]
        return result(VIOL, cls=[base + "/exception"], events=ev, key="C14:exception:%s" % type(err[1]).__name__,
                      what="rank %d raised %r (p=%d, %d cells, lNeumann=%r, uNeumann=%r)" % (err[0], err[1], p, nc, lN, uN), witness=wit)
    sols = []
    for q in range(6):
        G, cover = lo.assemble([res[q] for res in w.results], (nr, nth, nz))
        if not (cover == 1).all():
            return result(VIOL, cls=[base], events=ev, key="C14:coverage", what="phi blocks do not tile the grid", witness=wit)
        sols.append(G)
    # ---- reference ---------------------------------------------------------------------------------------
    T = rm.clamped_knots(breaks, p)
    Mcol = rm.collocation(T, p, r)
    kap_i = np.linalg.cond(Mcol)
    Vn = Mcol                                                   # basis values at the nodes
    rho_c = np.linalg.solve(Mcol.astype(complex), RHO.reshape(nr, -1)).reshape(nr, nth, nz)
    cls, evn = set(), {"profiles_compared": 0, "identity_checks": 0, "neumann_modes": 0, "skipped_illconditioned_modes": 0}
    nq = quad // 2 + 1
    worst = None
    condmax = 1.0
    for I, m in enumerate(modes):
        ln, un = (m in lN), (m in uN)
        K, Mass, keep, _T = rm.galerkin_radial(breaks, p, nq, lambda x: A, co.B, co.Cc, co.D, co.E, float(m * m), ln, un)
        condK = np.linalg.cond(K)
        if not np.isfinite(condK) or condK > 1e10:
            evn["skipped_illconditioned_modes"] += 1
            continue
        condmax = max(condmax, condK)
        if ln or un:
            evn["neumann_modes"] += 1
        bc = ("N" if ln else "D") + ("N" if un else "D")
        # function right-hand side (1 + 0.3 r), solved AFTER the discrete solves on the same solver object
        gxq, gwq = rm.gauss_legendre(breaks, nq)
        Vq = np.array([rm.basis_all(_T, p, xi) for xi in gxq])
        bfun = (gwq * gxq * np.array([co.E(xi) for xi in gxq]) * (1.0 + 0.3 * gxq)) @ Vq
        reff = Vn[:, keep] @ np.linalg.solve(K, bfun[keep])
        gotf = sols[4][:, I, :]
        tolf = C * rm.EPS * condK * kap_i * (float(np.abs(reff).max()) + 1e-3 * co.escale)
        evn["profiles_compared"] += nz
        cls.add("%s/bc-%s/function-rhs-after-discrete" % (base, bc))
        ef = float(np.abs(gotf - reff[:, None]).max()) if np.all(np.isfinite(gotf)) else np.inf
        if not ef <= tolf:
            return result(VIOL, cls=sorted(cls), events={**ev, **evn}, key="C14:function-rhs/%s" % space,
                          what="solveEquationForFunction (after discrete solves on the same solver; p=%d, %d cells, mode %d, bc %s, E(r) not 1): differs from the dense Galerkin solution of A phi''+...= E rho by %.3g (tol %.3g)"
                          % (p, nc, m, bc, ef, tolf), witness=wit)
        for z in range(nz):
            cvec = np.linalg.solve(K.astype(complex), Mass @ rho_c[:, I, z])
            ref = Vn[:, keep] @ cvec
            got = sols[0][:, I, z]
            scale = float(np.abs(ref).max()) + float(np.abs(RHO[:, I, z]).max()) * 1e-3 * co.escale
            tol = C * rm.EPS * condK * kap_i * scale
            evn["profiles_compared"] += 1
            cls.add("%s/bc-%s/formula" % (base, bc))
            e = float(np.abs(got - ref).max()) if np.all(np.isfinite(got)) else np.inf
            if not e <= tol and (worst is None or e / tol > worst[0]):
                worst = (e / tol, e, tol, m, z, bc)
            # Dirichlet zeros (the boundary node may sit a rounding error inside the domain)
            if not ln and not abs(got[0]) <= tol:
                return result(VIOL, cls=sorted(cls), events={**ev, **evn}, key="C14:dirichlet-not-zero", what="mode %d: value %r at the inner Dirichlet boundary" % (m, got[0]), witness=wit)
            if not un and not abs(got[-1]) <= tol:
                return result(VIOL, cls=sorted(cls), events={**ev, **evn}, key="C14:dirichlet-not-zero", what="mode %d: value %r at the outer Dirichlet boundary" % (m, got[-1]), witness=wit)
            evn["identity_checks"] += 2
    if worst is not None:
        return result(VIOL, cls=sorted(cls), events={**ev, **evn}, key="C14:galerkin-solution/%s/bc-%s" % (space, worst[5]),
                      what="solveEquation (p=%d, %d cells, quad %d, A=%g, mode %d, z %d, bc %s, P=%d): differs from the dense Galerkin solution by %.3g (tol %.3g)"
                      % (p, nc, quad, A, worst[3], worst[4], worst[5], Pn, worst[1], worst[2]), witness=wit)
    evn["identity_checks"] += 1
    cls.add("%s/repeat-after-other-entry-point" % base)
    rep_scale = float(np.abs(sols[0]).max()) + 1e-300
    rep_tol = C * rm.EPS * condmax * kap_i * rep_scale
    if not (np.all(np.isfinite(sols[5])) and float(np.abs(sols[5] - sols[0]).max()) <= rep_tol):
        return result(VIOL, cls=sorted(cls), events={**ev, **evn}, key="C14:repeated-solve-differs",
                      what="solving the same right-hand side again on the same solver (after solveEquationForFunction in between) gives a different result (max change %.3g)"
                      % float(np.nanmax(np.abs(sols[5] - sols[0]))), witness=wit)
    # linearity and mode independence on the real code
    if evn["skipped_illconditioned_modes"] == 0:
        scale = max(float(np.abs(s_).max()) for s_ in sols[:3]) + 1e-300
        lin = float(np.abs(sols[2] - (al * sols[0] + be * sols[1])).max())
        evn["identity_checks"] += 1
        cls.add("%s/linearity" % base)
        tol_lin = C * rm.EPS * condmax * kap_i * scale * (abs(al) + abs(be) + 1)
        if not lin <= tol_lin:
            return result(VIOL, cls=sorted(cls), events={**ev, **evn}, key="C14:not-linear-in-rho",
                          what="solution not linear in rho: defect %.3g (tol %.3g)" % (lin, tol_lin), witness=wit)
        mchg = 1 % nth
        others = [i for i in range(nth) if i != mchg]
        evn["identity_checks"] += 1
        cls.add("%s/mode-independence" % base)
        # (up to rounding: the other modes are solved again, possibly through another but equivalent code path)
        if not (np.all(np.isfinite(sols[3][:, others, :])) and float(np.abs(sols[3][:, others, :] - sols[0][:, others, :]).max()) <= rep_tol):
            return result(VIOL, cls=sorted(cls), events={**ev, **evn}, key="C14:modes-not-independent",
                          what="changing rho in mode index %d changed the solution of another mode" % mchg, witness=wit)
    return result(HELD, cls=sorted(cls), events={**ev, **evn}, n_eval=evn["profiles_compared"])


def _manufactured_case(case, spl, ps):
    from mpi4py import MPI
    rng = random.Random(case["seed"])
    rs = np.random.RandomState(case["seed"] % (1 << 31))
    p, nc, nth, A, bc = case["p"], case["ncells"], case["nth"], case["A"], case["bc"]
    a = rng.uniform(0.2, 1.5)
    b = a + rng.uniform(1.0, 6.0)
    rspline, breaks = _space(spl, p, nc, a, b)
    r = np.asarray(rspline.greville, dtype=float)
    nr = len(r)
    eta = [r, np.linspace(0, 2 * pi, nth, endpoint=False), np.array([0.0])]
    Pn = np.polynomial.Polynomial
    # polynomial of degree <= p satisfying the boundary conditions: start from random q and fix the ends
    if p < 2 and bc != "DD":
        return result(SKIP, what="degree too low for a Neumann manufactured solution")
    if p < 2:
        # DD with p=1: only the zero function is linear and vanishes at both ends -> use piecewise? skip
        return result(SKIP, what="no non-trivial polynomial of degree 1 with two Dirichlet zeros")
    t = Pn([-a / (b - a), 1 / (b - a)])          # t in [0,1]
    if bc == "DD":
        phi_s = t * (1 - t) * Pn(rs.uniform(0.5, 1.5, max(1, p - 1)))(t) if p >= 3 else t * (1 - t)
    elif bc == "ND":        # phi'(a)=0, phi(b)=0
        phi_s = (1 - t * t) if p == 2 else (1 - t * t) * (1 + 0.0 * t) + (0.5 * t * t * (1 - t) if p >= 3 else 0)
    else:                   # DN: phi(a)=0, phi'(b)=0
        s = 1 - t
        phi_s = (1 - s * s) if p == 2 else (1 - s * s) + (0.5 * s * s * (1 - s) if p >= 3 else 0)
    if phi_s.degree() > p:
        return result(SKIP, what="manufactured polynomial exceeds spline degree")
    Bp, Cp, Dp = Pn(rs.uniform(-0.5, 0.5, 2)), Pn([1.0 + rs.uniform(0, 1), rs.uniform(-0.1, 0.1)]), Pn([-1.0, -rs.uniform(0, 0.2)])
    # the factor E in front of the right-hand side: 1 (default) or a positive function
    Ep = Pn([1.0]) if case["seed"] % 2 else Pn([1.5 + rs.uniform(0, 1), 0.3])
    modes = [int(m) for m in np.fft.fftfreq(nth, 1 / nth)]
    lN = list(modes) if bc[0] == "N" else []
    uN = list(modes) if bc[1] == "N" else []
    quad = 2 * p + 6

    def prog(rank):
        comm = MPI.COMM_WORLD
        phi, rho = _grids(MPI, comm, eta, [1, 1])
        kwc = dict(ddrFactor=lambda x: A, drFactor=lambda x: float(Bp(x)), rFactor=lambda x: float(Cp(x)), ddThetaFactor=lambda x: float(Dp(x)), rhoFactor=lambda x: float(Ep(x)))
        if case["seed"] % 2:
            solver = ps.DiffEqSolver(quad, rspline, nr, nth, lN, uN, **kwc)        # the two mode lists handed over by position (lower boundary first, as documented)
        else:
            solver = ps.DiffEqSolver(quad, rspline, nr, nth, lNeumannIdx=lN, uNeumannIdx=uN, **kwc)
        tables = {}
        # one solver call handles all modes with the SAME rho function; the exact solution differs per mode,
        # so solve mode by mode with the matching right-hand side through a 1-mode trick: rho for mode m
        out = np.empty((nth, nr), dtype=complex)
        for I, m in enumerate(modes):
            m2 = float(m * m)
            rhs_m = A * phi_s.deriv(2) + Bp * phi_s.deriv(1) + Cp * phi_s - m2 * Dp * phi_s     # = E * rho
            phi.getAllData()[:] = np.nan
            if case["seed"] % 3 == 0:
                # a tabulated source: the callable hands out the SAME stored array whenever it is asked for the same points
                def rho_fn(x, _m=I, _rhs=rhs_m):
                    key = (_m, np.asarray(x, dtype=float).tobytes())
                    if key not in tables:
                        tables[key] = [np.array(_rhs(x) / Ep(x), dtype=float), np.array(_rhs(x) / Ep(x), dtype=float)]
                    return tables[key][0]
            else:
                def rho_fn(x, _rhs=rhs_m):
                    return _rhs(x) / Ep(x)
            solver.solveEquationForFunction(phi, rho_fn)
            out[I] = phi.getAllData()[I, 0, :]
        for key, (handed, kept) in tables.items():
            if not np.array_equal(handed, kept):
                raise AssertionError("solveEquationForFunction modified the array its right-hand-side callable returned (mode index %d)" % key[0])
        return out

    w = MPI.run_world(1, prog, timeout=300)
    ev = dict(w.events)
    err = w.first_error()
    wit = {"case": case, "a": a, "b": b}
    base = "p%d/%s/manufactured-%s" % (p, "fast" if rspline.cubic_uniform else "general", bc)
    if err is not None:
        wit["traceback"] = (w.tracebacks[err[0]] or "")[-2500:]
        return result(VIOL, cls=[base + "/exception"], events=ev, key="C14:exception:%s" % type(err[1]).__name__, what="%r" % (err[1],), witness=wit)
    out = w.results[0]
    exact = phi_s(r)
    T = rm.clamped_knots(breaks, p)
    kap_i = np.linalg.cond(rm.collocation(T, p, r))
    worst = 0.0
    tolmax = 0.0
    for I, m in enumerate(modes):
        K, Mass, keep, _T = rm.galerkin_radial(breaks, p, quad // 2 + 1, lambda x: A, Bp, Cp, Dp, Ep, float(m * m), bc[0] == "N", bc[1] == "N")
        condK = np.linalg.cond(K)
        if condK > 1e10:
            continue
        tol = C * rm.EPS * condK * kap_i * (float(np.abs(exact).max()) + 1)
        e = float(np.abs(out[I] - exact).max())
        ev["manufactured_profiles"] = ev.get("manufactured_profiles", 0) + 1
        if not e <= tol:
            return result(VIOL, cls=[base], events=ev, key="C14:manufactured-solution/%s%s" % (bc, "" if Ep.degree() == 0 else "/function-rhs-with-E"),
                          what="manufactured polynomial solution (degree %d, bc %s, mode %d, A=%g, E %s) through solveEquationForFunction recovered with error %.3g (tol %.3g)"
                          % (phi_s.degree(), bc, m, A, "= 1" if Ep.degree() == 0 else "= %r" % (list(Ep.coef),), e, tol), witness=wit)
    return result(HELD, cls=[base], events=ev, n_eval=ev.get("manufactured_profiles", 0))


def _illposed_case(case, spl, ps):
    rng = random.Random(case["seed"])
    p, nc, nth = case["p"], case["ncells"], case["nth"]
    rspline, breaks = _space(spl, p, nc, 0.5, 3.0)
    nr = rspline.nbasis
    ev = {"illposed_refused": 0}
    m = rng.choice([0, 1, -1])
    try:
        ps.DiffEqSolver(2 * p, rspline, nr, nth, lNeumannIdx=[m], uNeumannIdx=[m])     # default C = 0
    except Exception:  # noqa: BLE001 - any exception is a refusal (the property does not prescribe its type)
        ev["illposed_refused"] = 1
        # and the well-posed variants must NOT be refused
        try:
            ps.DiffEqSolver(2 * p, rspline, nr, nth, lNeumannIdx=[m], uNeumannIdx=[m], rFactor=lambda r: 1.0)
            ps.DiffEqSolver(2 * p, rspline, nr, nth, lNeumannIdx=[m], uNeumannIdx=[m + 1])
        except Exception as e:  # noqa: BLE001
            return result(VIOL, cls=["illposed"], events=ev, key="C14:well-posed-problem-refused", what="well-posed Neumann configuration refused: %s" % e, witness={"case": case})
        return result(HELD, cls=["illposed/refused"], events=ev)
    return result(VIOL, cls=["illposed"], events=ev, key="C14:ill-posed-neumann-accepted",
                  what="both-Neumann problem with C=0 for mode %d was accepted (no exception raised)" % m, witness={"case": case})
