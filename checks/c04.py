"""C04 -- Grid layout changes and save/restore behave like one undistributed array.

Monitor: a numpy model (global field, current layout, saved (field, layout) or None) is run in
lock-step with real Grid objects on simulated ranks; after EVERY operation on EVERY rank the
grid's current layout name and its data view are compared bit-for-bit with the model's block.
Operations that must be refused (save while saved, restore/free without save, all three on a
grid without save memory) must raise on every rank and leave the observable state unchanged.
A soft structural contract (data view aliases exactly one buffer) rides along.
"""
import itertools
import random

import numpy as np

from vlib import paths
paths.setup()
from vlib.runner import result, HELD, VIOL, SKIP, INCO  # noqa: E402
from vlib import layout_oracle as lo  # noqa: E402

ID = "C04"
LEVEL = "exploration"
NEEDS_SIMMPI = True
EXHAUSTIVE = {"quick": True, "thorough": True}
RULE = ("alphabet of 7 operations (setLayout to each of 3 layouts, write a fresh unique-id field, save, restore, free); "
        "EXHAUSTIVE over all sequences of length <= L (quick L=4: 2800 sequences, thorough L=6: 137256) on small "
        "configurations (4-D physics layouts on handler grids (2,2),(3,1),(1,3) with uneven blocks; the driver's 3-D "
        "complex swapper grid on (2,2),(2,1)), each with and without save memory; plus seeded random histories of length "
        "40-200 on random handler/swapper configurations.  After every operation every rank compares layout name and "
        "data block with the numpy model.  A class is (manager kind, save memory?, dtype, grid pattern, transition "
        "(saved?, op, refused?)).")
ASSUMPTIONS = ["simulated MPI layer (self-tested)", "exhaustive only up to the stated sequence length on the listed small configurations",
               "refusal = any exception raised by the operation (pygyro uses assert; checks run without -O)"]
REQUIRED_EVENTS = {"ops_compared": 1, "refusals_observed": 1, "restores_compared": 1, "Alltoall": 1}
CASE_TIMEOUT = {"quick": 600, "thorough": 3000}

KEY_CASCADE = "C04:cascade-of-C03:cross-group-hop/equal-number-of-distributed-directions/different-distribution"
OPS = ["L0", "L1", "L2", "W", "S", "R", "F"]
PHYS = {'flux_surface': [0, 3, 1, 2], 'v_parallel': [0, 2, 1, 3], 'poloidal': [3, 2, 1, 0]}
DRIVER_GROUPS = [{'v_parallel_2d': [0, 2, 1], 'mode_solve': [1, 2, 0]}, {'v_parallel_1d': [0, 2, 1]}, {'poloidal': [2, 1, 0]}]


def small_configs():
    out = []
    for nprocs, shape in (([2, 2], [5, 3, 4, 5]), ([3, 1], [4, 2, 3, 5]), ([1, 3], [4, 2, 5, 4])):
        out.append({"mgr": "handler", "shape": shape, "nprocs": nprocs, "layouts": PHYS, "names": list(PHYS), "dtype": "float"})
    for p0, p1 in ((2, 2), (2, 1)):
        out.append({"mgr": "swapper", "shape": [5, 4, 3], "p": [p0, p1], "groups": DRIVER_GROUPS, "procs": [[p0, p1], p0, p1],
                    "start": "mode_solve", "names": ["mode_solve", "v_parallel_1d", "poloidal"], "dtype": "complex"})
    out.append({"mgr": "swapper", "shape": [5, 4, 5], "p": [2, 2], "groups": [{'A': [0, 1, 2], 'B': [2, 1, 0], 'C': [2, 0, 1]}, {'D': [0, 2, 1]}], "procs": [[2, 2], 2],
                "start": "A", "names": ["D", "C", "A"], "dtype": "float"})       # D -> C needs a 3-step route
    return out


def gen_cases(tier, seed):
    cases = []
    L = 4 if tier == "quick" else 6
    cfgs = small_configs()
    for ci, cfg in enumerate(cfgs):
        for save in (True, False):
            if not save and tier == "quick" and ci not in (0, 3, 5):
                continue
            Ls = L if save else min(L, 4)
            if tier == "quick":
                cases.append({"kind": "exh", "cfg": cfg, "save": save, "L": Ls, "prefix": [], "cost": 500})
            else:
                # shard by the first two symbols
                cases.append({"kind": "exh", "cfg": cfg, "save": save, "L": 1, "prefix": [], "cost": 1})
                for a in OPS:
                    cases.append({"kind": "exh", "cfg": cfg, "save": save, "L": Ls, "prefix": [a], "only_len": 2, "cost": 1})
                    for b in OPS:
                        cases.append({"kind": "exh", "cfg": cfg, "save": save, "L": Ls, "prefix": [a, b], "cost": 400})
    # deterministic witness of the listed cascade finding
    g = DRIVER_GROUPS
    cases.append({"kind": "rand", "save": True, "len": 30, "seed": 11, "cost": 50,
                  "cfg": {"mgr": "swapper", "shape": [5, 8, 6], "p": [4, 1], "groups": [g[1], g[2], g[0]], "procs": [4, 1, [4, 1]],
                          "start": "v_parallel_1d", "names": ["v_parallel_1d", "poloidal", "mode_solve"], "dtype": "float",
                          "template": "driver", "perturbed": True}})
    rng = random.Random(99991 + seed)
    nrand = 60 if tier == "quick" else 1200
    from checks.c01 import gen_config
    from checks.c03 import make_cfg
    for k in range(nrand):
        if rng.random() < 0.5:
            c = gen_config(rng, 6 if tier == "quick" else 12, 8)
            if c["dtype"] not in ("float", "complex"):
                c["dtype"] = "float"
            names = list(c["layouts"])
            rng.shuffle(names)
            cfg = {"mgr": "handler", "shape": c["shape"], "nprocs": c["nprocs"], "layouts": c["layouts"], "names": names[:3], "dtype": c["dtype"]}
        else:
            c = make_cfg(rng, 6 if tier == "quick" else 12, 8)
            names = [n for g in c["groups"] for n in g]
            rng.shuffle(names)
            cfg = {"mgr": "swapper", "shape": c["shape"], "p": c["p"], "groups": c["groups"], "procs": c["procs"], "start": c["start"],
                   "names": names[:3], "dtype": c["dtype"], "template": c["template"], "perturbed": c["perturbed"]}
        while len(cfg["names"]) < 3:
            cfg["names"].append(cfg["names"][0])
        cases.append({"kind": "rand", "cfg": cfg, "save": rng.random() < 0.75, "len": rng.randint(40, 200), "seed": rng.randrange(1 << 30), "cost": 100})
    return cases


def _sequences(prefix, L, only_len=None):
    """all sequences starting with prefix of total length len(prefix)..L"""
    n0 = len(prefix)
    if only_len is not None:
        if n0 == only_len:
            yield list(prefix)
        return
    for n in range(max(n0, 1), L + 1):
        for tail in itertools.product(OPS, repeat=n - n0):
            yield list(prefix) + list(tail)


class Model:
    def __init__(self, shape, dtype, start):
        self.shape = shape
        self.dtype = dtype
        self.k = 0
        self.G = lo.unique_global(shape, dtype, salt=0)
        self.layout = start
        self.saved = None


def _pattern(cfg):
    if cfg["mgr"] == "handler":
        from checks.c01 import grid_pattern
        return grid_pattern(cfg["nprocs"])
    p0, p1 = cfg["p"]
    return "serial" if p0 * p1 == 1 else ("p0=p1" if p0 == p1 else ("has1" if 1 in (p0, p1) else "p0!=p1"))


def run_case(case):
    from mpi4py import MPI
    from pygyro.model import layout as lay
    from pygyro.model import grid as grd
    paths.assert_repo(lay)
    paths.assert_repo(grd)
    cfg = case["cfg"]
    shape, dtype, names = cfg["shape"], cfg["dtype"], cfg["names"]
    save = case["save"]
    nd = len(shape)
    eta = [np.linspace(0.0, 1.0, n) for n in shape]
    P = int(np.prod(cfg["nprocs"])) if cfg["mgr"] == "handler" else cfg["p"][0] * cfg["p"][1]
    base = "%s/%s/%s/%s" % (cfg["mgr"], "save" if save else "nosave", dtype, _pattern(cfg))
    if case["kind"] == "exh":
        seqs = list(_sequences(case["prefix"], case["L"], case.get("only_len")))
    else:
        rng = random.Random(case["seed"])
        weights = [3, 3, 3, 3, 2, 2, 1]
        seqs = [rng.choices(OPS, weights=weights, k=case["len"])]
    npdt = lo.np_dtype(dtype)
    fields = {}

    def field(k):
        if k not in fields:
            fields[k] = lo.unique_global(shape, dtype, salt=k)
        return fields[k]

    def prog(rank):
        import warnings
        warnings.simplefilter("ignore")
        comm = MPI.COMM_WORLD
        if case.get("seed", 0) % 3 == 1:
            comm = comm.Split(0, -rank)          # the same processes numbered in the opposite order to the world communicator
        try:
            if cfg["mgr"] == "handler":
                h = lay.getLayoutHandler(comm, dict(cfg["layouts"]), list(cfg["nprocs"]), eta)
            else:
                h = lay.LayoutSwapper(comm, [dict(g) for g in cfg["groups"]], [p if isinstance(p, int) else list(p) for p in cfg["procs"]],
                                      eta, cfg["start"])
        except (RuntimeError, AssertionError, ValueError, IndexError, KeyError) as e:
            return {"refused": "%s: %s" % (type(e).__name__, e)}
        out = {"bad": [], "n": 0, "refusals": 0, "restores": 0, "trans": set(), "soft": 0, "nseq": 0}

        def compare(g, m, what):
            out["n"] += 1
            if g.currentLayout != m.layout:
                return "%s: currentLayout is %r, model says %r" % (what, g.currentLayout, m.layout)
            L = h.getLayout(m.layout)
            exp = lo.expected_block(m.G, L)
            got = g.getAllData()
            if not lo.bits_equal(got, exp):
                return "%s: data differ from the single-array model in layout %s: %s" % (what, m.layout, lo.describe_diff(got, exp, m.G))
            for i_ in range(nd):
                rg = g.getGlobalIdxVals(i_)
                if (rg.start, rg.stop) != (int(L.starts[i_]), int(L.ends[i_])):
                    return "%s: getGlobalIdxVals(%d) = %r but the current layout %s owns [%d,%d)" % (what, i_, rg, m.layout, L.starts[i_], L.ends[i_])
            # soft structural contract
            try:
                bufs = g._my_data
                f = g._f
                al = [bool(np.shares_memory(f, b)) for b in bufs] if f.size else None
                out["soft"] += 1
                if al is not None and sum(al) != 1:
                    return "%s: data view aliases %d of the grid's buffers" % (what, sum(al))
                idx = sorted([g._dataIdx, g._buffIdx] + ([g._saveIdx] if g.hasSaveMemory else []))
                if idx != list(range(len(idx))):
                    return "%s: buffer indices %r are not a permutation" % (what, idx)
            except AttributeError:
                pass
            return None

        for seq in seqs:
            out["nseq"] += 1
            start = names[0]
            g = grd.Grid(eta, [None] * nd, h, start, comm, dtype=npdt, allocateSaveMemory=(save, int(save), np.bool_(save))[out["nseq"] % 3])   # the flag as bool, int, numpy bool
            m = Model(shape, dtype, start)
            m.G = field(0)
            g.getAllData()[:] = lo.expected_block(m.G, h.getLayout(start))
            kwrite = 0
            for step, op in enumerate(seq):
                what = "after op %d (%s) of %r" % (step, op, seq if len(seq) <= 12 else (seq[:step + 1][-12:]))
                must_refuse = (op == "S" and (not save or m.saved is not None)) or (op in ("R", "F") and (not save or m.saved is None))
                out["trans"].add("%s/%s/%s%s" % (base, "saved" if m.saved is not None else "unsaved", op, "/refused" if must_refuse else ""))
                try:
                    if op[0] == "L":
                        nm = names[int(op[1])]
                        g.setLayout(nm)
                        m.layout = nm
                    elif op == "W":
                        kwrite += 1
                        m.G = field(kwrite % 5 + 1)
                        g.getAllData()[:] = lo.expected_block(m.G, h.getLayout(m.layout))
                    elif op == "S":
                        g.saveGridValues()
                        if must_refuse:
                            out["bad"].append("%s: saveGridValues was not refused (%s)" % (what, "no save memory" if not save else "already saved"))
                            return out
                        m.saved = (m.G, m.layout)
                    elif op == "R":
                        g.restoreGridValues()
                        if must_refuse:
                            out["bad"].append("%s: restoreGridValues was not refused" % what)
                            return out
                        m.G, m.layout = m.saved
                        m.saved = None
                        out["restores"] += 1
                    elif op == "F":
                        g.freeGridSave()
                        if must_refuse:
                            out["bad"].append("%s: freeGridSave was not refused" % what)
                            return out
                        m.saved = None
                except MPI.SimError:
                    raise
                except Exception as e:  # noqa: BLE001
                    if must_refuse and op in ("S", "R", "F"):
                        out["refusals"] += 1
                    else:
                        import traceback
                        out["bad"].append("%s: raised %s: %s" % (what, type(e).__name__, e))
                        out["tb"] = traceback.format_exc()[-2000:]
                        if op[0] == "L" and cfg["mgr"] == "swapper":
                            from checks import c03
                            group_of = {k: gi for gi, gr in enumerate(cfg["groups"]) for k in gr}
                            out["known"] = c03._hop_mechanism(h, g.currentLayout, names[int(op[1])], cfg, group_of)
                        return out
                msg = compare(g, m, what)
                if msg:
                    out["bad"].append(msg)
                    return out
        return out

    w = MPI.run_world(P, prog, schedule="random", seed=case.get("seed", 7), timeout=case.get("timeout", CASE_TIMEOUT["quick"]) - 20)
    ev = dict(w.events)
    wit = {"cfg": cfg, "save": save, "kind": case["kind"]}
    err = w.first_error()
    if err is not None:
        wit["traceback"] = (w.tracebacks[err[0]] or "")[-2500:]
        return result(VIOL, cls=[base + "/exception"], events=ev, key="C04:exception:%s" % type(err[1]).__name__,
                      what="rank %d raised %r; cfg=%r" % (err[0], err[1], cfg), witness=wit)
    res = w.results
    if any("refused" in r for r in res):
        if not all("refused" in r for r in res):
            return result(VIOL, cls=[base + "/refused"], events=ev, key="C04:inconsistent-refusal", what="manager refused on some ranks only", witness=wit)
        return result(SKIP, what="layout manager refused the configuration: " + res[0]["refused"])
    bad = [m for r in res for m in r["bad"]]
    ev["ops_compared"] = sum(r["n"] for r in res)
    ev["refusals_observed"] = sum(r["refusals"] for r in res)
    ev["restores_compared"] = sum(r["restores"] for r in res)
    ev["soft_contract_evaluations"] = sum(r["soft"] for r in res)
    ev["sequences"] = res[0]["nseq"]
    cls = sorted(set(t for r in res for t in r["trans"]))
    if bad:
        wit["messages"] = bad[:4]
        wit["traceback"] = next((r.get("tb") for r in res if r.get("tb")), None)
        key = "C04:model-mismatch"
        kn = [r.get("known") for r in res if r["bad"]]
        if kn and all(k is not None for k in kn):
            key = KEY_CASCADE
        return result(VIOL, cls=cls, events=ev, key=key, what=bad[0] + " cfg=%r save=%r" % (cfg, save), witness=wit, n_eval=ev["ops_compared"])
    return result(HELD, cls=cls, events=ev, n_eval=ev["ops_compared"], sched=str(hash(w.arrival_signature())))
