#!/venv/bin/python
"""CLI of the /verif runtime monitors:  check.py <Cxx> --tier quick|thorough [--replay <file>]

exit 0: property held on everything explored (KNOWN-FINDING lines may be printed)
exit 1: VIOLATION property=<id> replay=<path>
exit 2: inconclusive (monitor not reached, watchdog, self-test failure) -- never folded into 0/1
"""
import argparse
import importlib
import os
import sys

HERE = os.path.dirname(os.path.abspath(__file__))
os.chdir(HERE)
sys.path.insert(0, HERE)

from vlib import paths  # noqa: E402

paths.setup()


def main():
    ap = argparse.ArgumentParser()
    ap.add_argument("prop")
    ap.add_argument("--tier", default=os.environ.get("VERIF_TIER", "quick"), choices=["quick", "thorough"])
    ap.add_argument("--replay", default=None)
    ap.add_argument("--workers", type=int, default=None)
    a = ap.parse_args()
    prop = a.prop.upper()
    mod = importlib.import_module("checks." + prop.lower())
    from vlib import runner
    if getattr(mod, "NEEDS_SIMMPI", False):
        from vlib import simmpi_selftest
        n, fails = simmpi_selftest.run()
        if fails:
            print("INCONCLUSIVE property=%s simulated-MPI self-test failed: %s" % (prop, fails[0][:300]))
            return 2
    return runner.main(mod, a.tier, replay=a.replay, nworkers=a.workers)


if __name__ == "__main__":
    sys.exit(main())
